"""Contract clauses for the representation-level functions of AnsiString (DESIGN.md 5: SL, G1/G2, N1,
F1-F3, M1/M2, A1).  PyV only: interpreted symbolically by pyvc and executed natively on replay.
Each clause takes the call record `r` (old_self, self, <argument names>, old_<argument names>, result,
exc and, for quantified clauses, k)."""
from spec import *  # noqa: F401,F403  (spec vocabulary)


# ------------------------------------------------------------------------------------------ SL
def post_slice_val(r):
    """_slice_val_to_idx(val, default) == Python's slice normalisation of val against len (C04, C06, C07, C17)"""
    n = len(r.self._s)
    v = r.val
    if v is None:
        return r.result == r.default
    if v < 0:
        exp = v + n
        if exp < 0:
            exp = 0
    elif v > n:
        exp = n
    else:
        exp = v
    return r.result == exp


# ------------------------------------------------------------------------------------------ G1 / G2
def getitem_bounds(r):
    """(lo, hi): the selected range in coordinates of the source text"""
    n = len(r.old_self._s)
    v = r.val
    if isinstance(v, slice):
        return py_slice(v.start, v.stop, n)
    if v < 0:
        v = v + n
    return (v, v + 1)


def post_getitem_text(r):
    lo, hi = getitem_bounds(r)
    return r.result._s == r.old_self._s[lo:hi]


def post_getitem_index_in_range(r):
    """a successful integer index was within -len .. len-1"""
    if isinstance(r.val, slice):
        return True
    n = len(r.old_self._s)
    return -n <= r.val and r.val < n


def getitem_k_range(r):
    return (0, len(r.result._s))


def post_getitem_view(r):
    """the k-th character of the slice reports the settings (texts, in order) of character lo+k of the source"""
    lo, hi = getitem_bounds(r)
    return texts(view(r.result, r.k)) == texts(view(r.old_self, lo + r.k))


def post_result_wf(r):
    """the result is consistent and closed at its end (nothing stays open past the slice)"""
    return wf(r.result) and owns_lists(r.result)


def post_result_separate_from_self(r):
    return separate(r.result, r.self)


def raises_getitem_index(r):
    if isinstance(r.val, slice):
        return False
    if not isinstance(r.val, int):
        return False
    n = len(r.old_self._s)
    return r.val < -n or r.val >= n


def raises_getitem_step(r):
    return isinstance(r.val, slice) and r.val.step is not None and r.val.step != 1


def raises_getitem_type(r):
    return not isinstance(r.val, slice) and not isinstance(r.val, int)


# ------------------------------------------------------------------------------------------ N1
def post_settings_at(r):
    """ansi_settings_at(i) is the abstraction function itself: [] outside 0..len-1, else the active objects in order"""
    return same_objs(r.result, view(r.old_self, r.idx))


def post_settings_at_str(r):
    """settings_at(i) is the ';'-join of the texts of ansi_settings_at(i)"""
    return r.result == ';'.join(texts(view(r.old_self, r.idx)))


# ------------------------------------------------------------------------------------------ F1 - F3
def apply_range(r):
    return py_slice(r.start, r.end, len(r.old_self._s))


def whole_range(r):
    return (0, len(r.old_self._s))


def post_text_unchanged(r):
    return r.self._s == r.old_self._s


def post_self_wf(r):
    return wf(r.self) and owns_lists(r.self)


def post_apply_noop(r):
    """an empty range or an empty settings list leaves the table untouched"""
    a, b = apply_range(r)
    if b <= a or len(r.settings) == 0:
        return same_table(r.old_self._fmts, r.self._fmts)
    return True


def post_apply_outside(r):
    """characters outside [a, b) keep their settings and their order"""
    a, b = apply_range(r)
    if len(r.settings) != 0 and a <= r.k and r.k < b:
        return True
    return texts(view(r.self, r.k)) == texts(view(r.old_self, r.k))


def interleaves(xs, a, b):
    """xs is an interleaving of a and b (both keep their relative order)"""
    if len(xs) != len(a) + len(b):
        return False
    if len(xs) == 0:
        return True
    if len(a) > 0 and xs[0] == a[0] and interleaves(xs[1:], a[1:], b):
        return True
    if len(b) > 0 and xs[0] == b[0] and interleaves(xs[1:], a, b[1:]):
        return True
    return False


def post_apply_inside(r):
    """every character inside gains exactly the given settings, the old ones keep their relative order"""
    a, b = apply_range(r)
    if len(r.settings) == 0 or r.k < a or r.k >= b:
        return True
    return interleaves(texts(view(r.self, r.k)), texts(view(r.old_self, r.k)), texts(r.settings))


def post_apply_bottom(r):
    """topmost=False: the new settings sit below everything the character already had, so every effect an
    existing setting sets or clears is displayed as before"""
    a, b = apply_range(r)
    if len(r.settings) == 0 or r.k < a or r.k >= b or r.topmost:
        return True
    return texts(view(r.self, r.k)) == texts(r.settings) + texts(view(r.old_self, r.k))


def first_start_after(fmts, a, b):
    """first key in (a, b) at which some setting starts, else b"""
    best = b
    for key in sorted(fmts):
        if key > a and key < best and len(fmts[key].add) > 0:
            best = key
    return best


def post_apply_top(r):
    """topmost=True: on the first character of the range, and until another setting begins, the new
    settings are the last (winning) ones"""
    a, b = apply_range(r)
    if len(r.settings) == 0 or r.k < a or r.k >= b or not r.topmost:
        return True
    if r.k >= first_start_after(r.old_self._fmts, a, b):
        return True
    return texts(view(r.self, r.k)) == texts(view(r.old_self, r.k)) + texts(r.settings)


# ------------------------------------------------------------------------------------------ M1 / M2
def selected(sel, t):
    """is the setting text t one of the settings asked to be removed (None = all)"""
    if sel is None:
        return True
    for s in sel:
        if str(s) == t:
            return True
    return False


def post_remove_noop(r):
    a, b = apply_range(r)
    if b <= a or (r.settings is not None and len(r.settings) == 0):
        return same_table(r.old_self._fmts, r.self._fmts)
    return True


def remove_is_noop(r):
    a, b = apply_range(r)
    return b <= a or (r.settings is not None and len(r.settings) == 0)


def post_remove_inside(r):
    """inside the range: the previous settings minus every setting equal to a selected one, order kept"""
    a, b = apply_range(r)
    if remove_is_noop(r) or r.k < a or r.k >= b:
        return True
    exp = [t for t in texts(view(r.old_self, r.k)) if not selected(r.settings, t)]
    return texts(view(r.self, r.k)) == exp


def count_of(lst, t):
    n = 0
    for x in lst:
        if x == t:
            n += 1
    return n


def same_multiset(xs, ys):
    if len(xs) != len(ys):
        return False
    for x in xs:
        if count_of(xs, x) != count_of(ys, x):
            return False
    return True


def conflict_order(ts):
    """the sub-sequence of setting texts per effect group: list of (group, text) pairs of settings whose
    first code has a known effect group, in order (reset conflicts with everything: group 0)"""
    out = []
    for t in ts:
        out.append((sgr_group_of_text(t), t))
    return out


def same_precedence(xs, ys):
    """same settings, and every two settings that touch the same effect keep their relative order"""
    if not same_multiset(xs, ys):
        return False
    gx = conflict_order(xs)
    gy = conflict_order(ys)
    for g, t in gx:
        subx = [u for h, u in gx if h == g or h == 0 or g == 0]
        suby = [u for h, u in gy if h == g or h == 0 or g == 0]
        if subx != suby:
            return False
    return True


def post_remove_outside(r):
    """outside the range: the same settings with the same precedence among conflicting settings"""
    a, b = apply_range(r)
    if not remove_is_noop(r) and a <= r.k and r.k < b:
        return True
    return same_precedence(texts(view(r.old_self, r.k)), texts(view(r.self, r.k)))


def post_clear(r):
    return len(r.self._fmts) == 0 and r.self._s == r.old_self._s


# ------------------------------------------------------------------------------------------ A1
def post_iadd_text(r):
    return r.self._s == r.old_self._s + r.old_value._s


def post_iadd_returns_self(r):
    return r.result is r.self


def iadd_k_range(r):
    return (0, len(r.old_self._s) + len(r.old_value._s))


def post_iadd_view(r):
    """every character keeps exactly the settings (texts, in order) it had in its own operand"""
    n = len(r.old_self._s)
    if r.k < n:
        return texts(view(r.self, r.k)) == texts(view(r.old_self, r.k))
    return texts(view(r.self, r.k)) == texts(view(r.old_value, r.k - n))


def post_iadd_value_separate(r):
    if r.value is r.self:
        return True
    return separate(r.self, r.value)


def raises_iadd_type(r):
    return not isinstance(r.value, str)


def operand_text(v):
    """text of a right operand: str, AnsiStr (its wrapped value) or AnsiString"""
    if isinstance(v, str):
        if hasattr(v, '_s'):
            return v._s._s
        return v
    return v._s


def operand_view(v, i):
    if isinstance(v, str):
        if hasattr(v, '_s'):
            return view(v._s, i)
        return []
    return view(v, i)


def post_iadd_text_any(r):
    return r.self._s == r.old_self._s + operand_text(r.old_value)


def iadd_k_range_any(r):
    return (0, len(r.old_self._s) + len(operand_text(r.old_value)))


def post_iadd_view_any(r):
    n = len(r.old_self._s)
    if r.k < n:
        return texts(view(r.self, r.k)) == texts(view(r.old_self, r.k))
    return texts(view(r.self, r.k)) == texts(operand_view(r.old_value, r.k - n))


# ------------------------------------------------------------------------------------------ F2
def collect_settings(v, out):
    """all AnsiSetting objects reachable from a settings argument (nested lists/tuples, AnsiFormat members)"""
    if isinstance(v, str) or isinstance(v, int):
        return out
    if hasattr(v, 'ansi_settings'):
        for x in v.ansi_settings:
            collect_settings(x, out)
        return out
    if isinstance(v, list) or isinstance(v, tuple):
        for x in v:
            collect_settings(x, out)
        return out
    out.append(v)
    return out


def post_scrub_twice_disjoint(r):
    """with make_unique two calls on the same argument never hand out the same setting object (so no returned object is
    one that is stored anywhere else, e.g. on an AnsiFormat member)"""
    again = r.SP._scrub_ansi_settings(r.old_settings, True)
    for x in r.result:
        if index_is(again, x) >= 0:
            return False
    return True


def post_scrub_unique(r):
    """with make_unique every returned setting is a new object: it is none of the caller's setting objects (so a
    stop marker can never alias a setting that is stored somewhere else) and no object is returned twice"""
    given = collect_settings(r.old_settings, [])
    i = 0
    for x in r.result:
        if index_is(given, x) >= 0:
            return False
        j = 0
        for y in r.result:
            if i < j and x is y:
                return False
            j += 1
        i += 1
    return True


def post_scrub_flattens(r):
    """nested lists/tuples of AnsiSetting objects are flattened in order, texts unchanged"""
    return texts(r.result) == texts(collect_settings(r.old_settings, []))


# ------------------------------------------------------------------------------------------ V5
def copy_source(r):
    s = r.old_s
    if isinstance(s, str):
        return s._s
    return s


def post_copy_same_value(r):
    """AnsiString(src) / copy(): same text, structurally equal table (same setting objects, same order)"""
    return same_value(r.self, copy_source(r))


def post_copy_separate(r):
    src = r.s
    if isinstance(src, str):
        src = src._s
    return separate(r.self, src) and owns_lists(r.self)


def post_copy_result_same_value(r):
    return same_value(r.result, r.old_self) and separate(r.result, r.self) and owns_lists(r.result)


# ------------------------------------------------------------------------------------------ N2: find_settings
def norm_bound(v, default, n):
    if v is None:
        return default
    if v < 0:
        v = v + n
        if v < 0:
            v = 0
        return v
    if v > n:
        return n
    return v


def find_range(r):
    n = len(r.old_self._s)
    return (norm_bound(r.start, 0, n), norm_bound(r.end, n, n))


def has_all(v, p, settings):
    """position p reports every one of the given settings (compared by value)"""
    ts = texts(view(v, p))
    for s in settings:
        if str(s) not in ts:
            return False
    return True


def post_find_degenerate(r):
    a, b = find_range(r)
    if b < a:
        return r.result[0] is None and r.result[1] is None
    if len(r.settings) == 0:
        return r.result[0] == a and r.result[1] == b
    return True


def find_k_range(r):
    a, b = find_range(r)
    if b < a or len(r.settings) == 0:
        return (0, 0)
    return (a, b + 1)


def post_find_positions(r):
    """for every position p of the inclusive normalised range: the answer is consistent with whether p has all the
    given settings"""
    a, b = find_range(r)
    fs = r.result[0]
    fe = r.result[1]
    p = r.k
    h = has_all(r.old_self, p, r.settings)
    if fs is None:
        return fe is None and not h
    if r.reverse:
        return True
    if p < fs:
        return not h
    if fe is None:
        return h
    if p < fe:
        return h
    return True


def post_find_start_end(r):
    a, b = find_range(r)
    if b < a or len(r.settings) == 0:
        return True
    fs = r.result[0]
    fe = r.result[1]
    if fs is None:
        return fe is None
    if fs < a or fs > b:
        return False
    if not has_all(r.old_self, fs, r.settings):
        return False
    if fe is None:
        return True
    return fs < fe and fe <= b and not has_all(r.old_self, fe, r.settings)
