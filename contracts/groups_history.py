"""C09, bounded stand-in: exhaustive native enumeration of short histories of public operations (labelled bounded, back end
'native-enumeration'; never counted as proved).  The deductive part of C09 is the representation invariant carried by the
contract groups of the individual operations (see contracts/properties.py, C09); this group looks for what falls between
them: an operation without a contract, or a state reachable by a history that the per-operation table shapes do not contain."""
import itertools

from pyvc.harness import Group, ContractRun
from pyvc import concretize

GROUPS = []

ALLOWED = ('TypeError', 'ValueError')


def _ops(m):
    """(label, callable(value) -> result, extra allowed exception types)"""
    A, S = m.AnsiString, m.AnsiStr
    red_plus = A('+', 'red')
    ops = [
        ('apply(31,1,3)', lambda v: v.apply_formatting('31', 1, 3), ()),
        ('apply(1)', lambda v: v.apply_formatting('1'), ()),
        ('apply(4,2,100)', lambda v: v.apply_formatting('4', 2, 100), ()),
        ('apply([38;5;1,-2,None,topmost=False)', lambda v: v.apply_formatting('[38;5;1', -2, None, topmost=False), ()),
        ('apply(31,3,1)', lambda v: v.apply_formatting('31', 3, 1), ()),
        ('remove(31,0,2)', lambda v: v.remove_formatting('31', 0, 2), ()),
        ('remove(None,1)', lambda v: v.remove_formatting(None, 1), ()),
        ('remove(1)', lambda v: v.remove_formatting('1'), ()),
        ('remove(4,1,50)', lambda v: v.remove_formatting('4', 1, 50), ()),
        ('[1:3]', lambda v: v[1:3], ()),
        ('[:-1]', lambda v: v[:-1], ()),
        ('[2:]', lambda v: v[2:], ()),
        ('[0]', lambda v: v[0], ('IndexError',)),
        ('[-1]', lambda v: v[-1], ('IndexError',)),
        ('+ "xy"', lambda v: v + 'xy', ()),
        ('+ AnsiString(Z,32)', lambda v: v + A('Z', '32'), ()),
        ('+= self', lambda v: v.__iadd__(v), ()),
        ('+= AnsiStr(q,1)', lambda v: v.__iadd__(S('q', '1')), ()),
        ('"ab" + v (join)', lambda v: A.join('ab', v), ()),
        ('join(v, x, v)', lambda v: A.join(v, 'x', v), ()),
        ('replace(a,bb)', lambda v: v.replace('a', 'bb'), ()),
        ('replace(b,red +)', lambda v: v.replace('b', red_plus), ()),
        ('replace(,-)', lambda v: v.replace('', '-'), ()),
        ('replace(ab,,1,inplace)', lambda v: v.replace('ab', '', 1, inplace=True), ()),
        ('center(9,*)', lambda v: v.center(9, '*'), ()),
        ('ljust(7)', lambda v: v.ljust(7), ()),
        ('rjust(8,-,inplace,noextend)', lambda v: v.rjust(8, '-', True, False), ()),
        ('zfill(6)', lambda v: v.zfill(6), ()),
        ('strip()', lambda v: v.strip(), ()),
        ('lstrip(a )', lambda v: v.lstrip('a '), ()),
        ('rstrip(inplace)', lambda v: v.rstrip(inplace=True), ()),
        ('split()[-1]', lambda v: (v.split() or [v])[-1], ()),
        ('split(a)[0]', lambda v: v.split('a')[0], ()),
        ('rsplit(b,1)[-1]', lambda v: v.rsplit('b', 1)[-1], ()),
        ('splitlines(True)[0]', lambda v: (v.splitlines(True) or [v])[0], ()),
        ('partition(b)[2]', lambda v: v.partition('b')[2], ()),
        ('rpartition(a)[0]', lambda v: v.rpartition('a')[0], ()),
        ('removeprefix(a)', lambda v: v.removeprefix('a'), ()),
        ('removesuffix(b,inplace)', lambda v: v.removesuffix('b', inplace=True), ()),
        ('upper()', lambda v: v.upper(), ()),
        ('title(inplace)', lambda v: v.title(inplace=True), ()),
        ('capitalize()', lambda v: v.capitalize(), ()),
        ('assign_str(wxyz12)', lambda v: v.assign_str('wxyz12'), ()),
        ('assign_str(q)', lambda v: v.assign_str('q'), ()),
        ('assign_str()', lambda v: v.assign_str(''), ()),
        ('clear_formatting()', lambda v: v.clear_formatting(), ()),
        ('simplify()', lambda v: v.simplify(), ()),
        ('format_matching(a,32)', lambda v: v.format_matching('a', '32'), ()),
        ('format_matching([ab]+,1,regex)', lambda v: v.format_matching('[ab]+', '1', regex=True), ()),
        ('unformat_matching(b)', lambda v: v.unformat_matching('b'), ()),
        ('clip(1,4)', lambda v: v.clip(1, 4), ()),
        ('clip(end=2,inplace)', lambda v: v.clip(end=2, inplace=True), ()),
        ('expandtabs(2)', lambda v: v.expandtabs(2), ()),
        ('copy()', lambda v: v.copy(), ()),
        ('AnsiString(v, bold)', lambda v: A(v, 'bold'), ()),
        ('AnsiString(str(v))', lambda v: A(str(v)), ()),
        ('AnsiStr(v)[1:] -> AnsiString', lambda v: A(S(v)[1:]), ()),
        ('format(v, *^9:[4)', lambda v: A(format(v, '*^9:[4')), ()),
        # calls that must be rejected, and must leave the receiver as it was
        ('apply(nosuch)', lambda v: v.apply_formatting('nosuch', 0, 2), ()),
        ('apply([1, nosuch])', lambda v: v.apply_formatting([1, 'nosuch']), ()),
        ('apply(-1 as code)', lambda v: v.apply_formatting([31, -1], 1), ()),
        ('remove(nosuch)', lambda v: v.remove_formatting('nosuch'), ()),
        ('format_matching(a,red,nosuch)', lambda v: v.format_matching('a', 'red', 'nosuch'), ()),
        ('format_matching(.,1,rgb(1,2),regex)', lambda v: v.format_matching('.', '1', 'rgb(1,2)', regex=True), ()),
        ('unformat_matching(b,31,nosuch)', lambda v: v.unformat_matching('b', '31', 'nosuch'), ()),
        ('center(5,ab)', lambda v: v.center(5, 'ab'), ()),
        ('rjust(9,"",inplace)', lambda v: v.rjust(9, '', inplace=True), ()),
        ('[0:2:2]', lambda v: v[0:2:2], ()),
        ('["x"]', lambda v: v['x'], ()),
        ('+ 5', lambda v: v + 5, ()),
        ('+= None', lambda v: v.__iadd__(None), ()),
        ('join(v, 5)', lambda v: A.join(v, 5), ()),
        ('format(v, <<3)', lambda v: format(v, '<<3x'), ()),
        ('format(v, 5:nosuch)', lambda v: format(v, '5:nosuch'), ()),
        ('index(zz)', lambda v: v.index('zz'), ()),
        ('AnsiString(v, nosuch)', lambda v: A(v, 'nosuch'), ()),
    ]
    return ops


class _TimedOut(BaseException):
    pass


def _with_timeout(fn, v, seconds=5):
    import signal

    def on_alarm(signum, frame):
        raise _TimedOut()
    old = signal.signal(signal.SIGALRM, on_alarm)
    signal.alarm(seconds)
    try:
        return fn(v)
    finally:
        signal.alarm(0)
        signal.signal(signal.SIGALRM, old)


def _rerun(envr, ops, ri, seq, seconds=20):
    from pyvc.argkinds import native_receivers
    v = native_receivers(envr)[ri].copy()
    for k in seq:
        try:
            res = _with_timeout(ops[k][1], v, seconds)
        except _TimedOut:
            raise
        except Exception:  # noqa
            break
        if type(res).__name__ == 'AnsiString':
            v = res
    return v


def _confirm_hang(envr, ops, ri, seq):
    try:
        _rerun(envr, ops, ri, seq)
    except _TimedOut:
        return True
    return False


def _observe(m, v, wf_ok):
    """everything a later query / rendering / slice / concatenation could trip over"""
    if not wf_ok(v):
        return 'representation invariant (wf) broken'
    n = len(v)
    str(v)
    repr(v)
    v.to_str(optimize=False, reset_start=True)
    format(v, '>3')
    for i in range(-1, n + 1):
        v.settings_at(i)
    v[0:n // 2]
    v[n // 2:]
    w = v + v
    str(w)
    w2 = v.copy()
    w2 += 'z'
    str(w2)
    v.find_settings('31')
    v.is_formatting_valid()
    list(iter(v))
    return None


# histories of length 3 that once failed (found by the thorough tier), run in the quick tier as well
E2_FIXED_HISTORIES = (
    ['+ AnsiString(Z,32)', 'apply(31,1,3)', '+= self'],
    ['+ AnsiString(Z,32)', 'apply(31,1,3)', 'join(v, x, v)'],
    ['apply(31,1,3)', '+ AnsiString(Z,32)', '+= self'],
)


def e2_items(tier):
    # (start value index, first operation index): the remaining operations of the history are enumerated inside the item
    out = [[r, o, 2 if tier == 'quick' else 3] for r in range(9) for o in range(76)]
    out += [[r, h, 'fixed'] for r in range(9) for h in range(len(E2_FIXED_HISTORIES))]
    return out


def e2_task(envr, item):
    ri, oi, depth = item

    def body(c):
        from pyvc.argkinds import native_receivers
        m = envr.program.modules['ansi_string'].native
        wf_ok = envr.clause_native['wf_ok']
        ops = _ops(m)
        if depth != 'fixed' and oi >= len(ops):
            c.record('history-closure', True, 'native-enumeration', 'no such operation index')
            return
        count = 0
        bad = None
        if depth == 'fixed':
            labels = [o[0] for o in ops]
            seqs = [tuple(labels.index(lb) for lb in E2_FIXED_HISTORIES[oi])]
        else:
            seqs = ((oi,) + rest for rest in itertools.product(range(len(ops)), repeat=depth - 1))
        for seq in seqs:
            v = native_receivers(envr)[ri].copy()
            trail = [concretize.describe(v)]
            for step, k in enumerate(seq):
                label, fn, extra = ops[k]
                before = concretize.describe(v)
                try:
                    res = _with_timeout(fn, v)
                except _TimedOut:
                    # confirm on a fresh run of the same history with a long limit (a loaded machine must not look like a hang)
                    if _confirm_hang(envr, ops, ri, seq[:step + 1]):
                        bad = ('%s did not return within 5 s, nor within 20 s when the history was run again' % label, seq, step)
                        break
                    res = None
                    v = _rerun(envr, ops, ri, seq[:step + 1])
                    cur = v
                    continue
                except Exception as e:  # noqa
                    tn = type(e).__name__
                    if tn not in ALLOWED + tuple(extra):
                        bad = ('%s raised %s: %s' % (label, tn, e), seq, step)
                    elif concretize.describe(v) != before:
                        bad = ('%s raised %s and left the receiver changed' % (label, tn), seq, step)
                    break
                cur = res if type(res).__name__ == 'AnsiString' else v
                try:
                    msg = _observe(m, v, wf_ok)
                    if msg is None and cur is not v:
                        msg = _observe(m, cur, wf_ok)
                except Exception as e:  # noqa
                    msg = 'a later query / rendering / slice / concatenation raised %s: %s' % (type(e).__name__, e)
                if msg is not None:
                    bad = ('after %s: %s' % (label, msg), seq, step)
                    break
                v = cur
            count += 1
            if bad:
                break
        if bad:
            msg, seq, step = bad
            hist = [ops[k][0] for k in seq[:step + 1]]
            c.record('history-closure', False, 'native-enumeration', msg, native_replay={
                'status': 'REPRODUCED', 'call': 'history of public operations',
                'pre': {'self': concretize.describe(native_receivers(envr)[ri]), 'args': hist, 'kwargs': {}},
                'failed_clauses': ['history-closure (%s)' % msg], 'result': None, 'exception': None, 'post_self': None})
        else:
            c.record('history-closure', True, 'native-enumeration', '%d histories of length %s' % (count, depth))
    return ContractRun(body, [], replayable=False)


GROUPS.append(Group('E2', 'BOUNDED, native: every history of 2 (quick) / 3 (thorough) operations out of 76 public calls (18 of them calls that must be rejected) on 9 start values '
                    'leaves values on which the self-check, str(), repr(), to_str, format, settings_at, slicing, concatenation, '
                    'find_settings and iteration succeed and the representation invariant holds; an operation may raise only '
                    'TypeError / ValueError (IndexError for an integer index) and then leaves its receiver unchanged',
                    ['C09'], 'B', ['AnsiString.*'], e2_items, e2_task,
                    bounds='exhaustive: 9 start values x 76^2 (quick) / 76^3 (thorough) histories; concrete arguments; not a proof'))
