"""Spec vocabulary (DESIGN.md sections 3 and 4), written from the property statements.

Everything in this file is ordinary Python restricted to the PyV subset: the same text is
  (a) interpreted symbolically by pyvc when an obligation is discharged, and
  (b) executed natively by CPython on the real objects when a counterexample is replayed.
It never imports the library: it only looks at `_s`, `_fmts`, `.add`, `.rem` and str(setting).
"""


def index_is(lst, x):
    """index of the first element of lst that *is* x, or -1"""
    j = 0
    for e in lst:
        if e is x:
            return j
        j += 1
    return -1


def active(fmts, k):
    """Abstraction function: the ordered list of setting objects in force on character k, i.e. after
    replaying every change point with key <= k in ascending key order (per point: each stop marker
    deletes the first element that *is* it, then the start markers are appended)."""
    cur = []
    for key in sorted(fmts):
        if key <= k:
            p = fmts[key]
            for r in p.rem:
                j = index_is(cur, r)
                if j >= 0:
                    del cur[j]
            for a in p.add:
                cur.append(a)
    return cur


def view(v, i):
    """settings the value reports for character i ([] outside the text)"""
    if i < 0 or i >= len(v._s):
        return []
    return active(v._fmts, i)


def texts(lst):
    return [str(x) for x in lst]


def wf(v):
    """Representation invariant (DESIGN.md section 4): WF1 keys within [0, len]; WF2 every stop marker is
    active (by identity) when it is reached; WF5 nothing is active twice; WF3 nothing stays open past the
    end.  (WF4 - no start marker at key len - follows from WF3.)"""
    n = len(v._s)
    cur = []
    for key in sorted(v._fmts):
        if key < 0 or key > n:
            return False
        p = v._fmts[key]
        for r in p.rem:
            j = index_is(cur, r)
            if j < 0:
                return False
            del cur[j]
        for a in p.add:
            if index_is(cur, a) >= 0:
                return False
            cur.append(a)
    return len(cur) == 0


def marker_lists(v):
    out = []
    for key in v._fmts:
        p = v._fmts[key]
        out.append(p.add)
        out.append(p.rem)
    return out


def owns_lists(v):
    """WF6: no marker list object is used twice inside one value"""
    ls = marker_lists(v)
    i = 0
    for a in ls:
        j = 0
        for b in ls:
            if i < j and a is b:
                return False
            j += 1
        i += 1
    return True


def separate(v, w):
    """no dict, change point or marker list is shared between the two values"""
    if v is w:
        return False
    if v._fmts is w._fmts:
        return False
    for k1 in v._fmts:
        for k2 in w._fmts:
            if v._fmts[k1] is w._fmts[k2]:
                return False
    for a in marker_lists(v):
        for b in marker_lists(w):
            if a is b:
                return False
    return True


def same_table(f, g):
    """structural equality of two change-point tables with setting objects compared by identity"""
    if len(f) != len(g):
        return False
    for key in f:
        if key not in g:
            return False
        p = f[key]
        q = g[key]
        if len(p.add) != len(q.add) or len(p.rem) != len(q.rem):
            return False
        i = 0
        for x in p.add:
            if x is not q.add[i]:
                return False
            i += 1
        i = 0
        for x in p.rem:
            if x is not q.rem[i]:
                return False
            i += 1
    return True


def same_objs(a, b):
    """two lists hold the same objects in the same order"""
    if len(a) != len(b):
        return False
    i = 0
    for x in a:
        if x is not b[i]:
            return False
        i += 1
    return True


def py_slice(start, stop, n):
    """slice(start, stop).indices(n)[:2] with the upper bound clamped to the lower one"""
    if start is None:
        lo = 0
    elif start < 0:
        lo = start + n
        if lo < 0:
            lo = 0
    elif start > n:
        lo = n
    else:
        lo = start
    if stop is None:
        hi = n
    elif stop < 0:
        hi = stop + n
        if hi < 0:
            hi = 0
    elif stop > n:
        hi = n
    else:
        hi = stop
    if hi < lo:
        hi = lo
    return (lo, hi)
