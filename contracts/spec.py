"""Spec vocabulary (DESIGN.md sections 3 and 4), written from the property statements.

Everything in this file is ordinary Python restricted to the PyV subset: the same text is
  (a) interpreted symbolically by pyvc when an obligation is discharged, and
  (b) executed natively by CPython on the real objects when a counterexample is replayed.
It never imports the library: it only looks at `_s`, `_fmts`, `.add`, `.rem` and str(setting).
"""


def index_is(lst, x):
    """index of the first element of lst that *is* x, or -1"""
    j = 0
    for e in lst:
        if e is x:
            return j
        j += 1
    return -1


def active(fmts, k):
    """Abstraction function: the ordered list of setting objects in force on character k, i.e. after
    replaying every change point with key <= k in ascending key order (per point: each stop marker
    deletes the first element that *is* it, then the start markers are appended)."""
    cur = []
    for key in sorted(fmts):
        if key <= k:
            p = fmts[key]
            for r in p.rem:
                j = index_is(cur, r)
                if j >= 0:
                    del cur[j]
            for a in p.add:
                cur.append(a)
    return cur


def view(v, i):
    """settings the value reports for character i ([] outside the text)"""
    if i < 0 or i >= len(v._s):
        return []
    return active(v._fmts, i)


def texts(lst):
    return [str(x) for x in lst]


def wf(v):
    """Representation invariant (DESIGN.md section 4): WF1 keys within [0, len]; WF2 every stop marker is
    active (by identity) when it is reached; WF5 nothing is active twice; WF3 nothing stays open past the
    end.  (WF4 - no start marker at key len - follows from WF3.)"""
    n = len(v._s)
    cur = []
    for key in sorted(v._fmts):
        if key < 0 or key > n:
            return False
        p = v._fmts[key]
        for r in p.rem:
            j = index_is(cur, r)
            if j < 0:
                return False
            del cur[j]
        for a in p.add:
            if index_is(cur, a) >= 0:
                return False
            cur.append(a)
    return len(cur) == 0


def marker_lists(v):
    out = []
    for key in v._fmts:
        p = v._fmts[key]
        out.append(p.add)
        out.append(p.rem)
    return out


def owns_lists(v):
    """WF6: no marker list object is used twice inside one value"""
    ls = marker_lists(v)
    i = 0
    for a in ls:
        j = 0
        for b in ls:
            if i < j and a is b:
                return False
            j += 1
        i += 1
    return True


def separate(v, w):
    """no dict, change point or marker list is shared between the two values"""
    if v is w:
        return False
    if v._fmts is w._fmts:
        return False
    for k1 in v._fmts:
        for k2 in w._fmts:
            if v._fmts[k1] is w._fmts[k2]:
                return False
    for a in marker_lists(v):
        for b in marker_lists(w):
            if a is b:
                return False
    return True


def same_table(f, g):
    """structural equality of two change-point tables with setting objects compared by identity"""
    if len(f) != len(g):
        return False
    for key in f:
        if key not in g:
            return False
        p = f[key]
        q = g[key]
        if len(p.add) != len(q.add) or len(p.rem) != len(q.rem):
            return False
        i = 0
        for x in p.add:
            if x is not q.add[i]:
                return False
            i += 1
        i = 0
        for x in p.rem:
            if x is not q.rem[i]:
                return False
            i += 1
    return True


def same_objs(a, b):
    """two lists hold the same objects in the same order"""
    if len(a) != len(b):
        return False
    i = 0
    for x in a:
        if x is not b[i]:
            return False
        i += 1
    return True


def py_slice(start, stop, n):
    """slice(start, stop).indices(n)[:2] with the upper bound clamped to the lower one"""
    if start is None:
        lo = 0
    elif start < 0:
        lo = start + n
        if lo < 0:
            lo = 0
    elif start > n:
        lo = n
    else:
        lo = start
    if stop is None:
        hi = n
    elif stop < 0:
        hi = stop + n
        if hi < 0:
            hi = 0
    elif stop > n:
        hi = n
    else:
        hi = stop
    if hi < lo:
        hi = lo
    return (lo, hi)


# ---------------------------------------------------------------------------------------------
# SGR: an independent table of the Select-Graphic-Rendition codes (ECMA-48 8.3.117 plus the common
# xterm/VTE extensions the library documents).  group 0 is "reset", -1 "not an SGR code we know".
G_RESET, G_BOLD, G_ITALIC, G_UNDERLINE, G_OVERLINE, G_BLINK, G_SWAP, G_HIDE, G_STRIKE = 0, 1, 2, 3, 4, 5, 6, 7, 8
G_FONT, G_SPACING, G_BOX, G_FG, G_BG, G_ULCOLOR = 9, 10, 11, 12, 13, 14
K_APPLY, K_CLEAR, K_RESET = 1, 2, 3


def _sgr_table():
    t = {0: (G_RESET, K_RESET)}
    t[1] = (G_BOLD, K_APPLY)
    t[2] = (G_BOLD, K_APPLY)
    t[3] = (G_ITALIC, K_APPLY)
    t[4] = (G_UNDERLINE, K_APPLY)
    t[5] = (G_BLINK, K_APPLY)
    t[6] = (G_BLINK, K_APPLY)
    t[7] = (G_SWAP, K_APPLY)
    t[8] = (G_HIDE, K_APPLY)
    t[9] = (G_STRIKE, K_APPLY)
    t[10] = (G_FONT, K_CLEAR)   # primary (default) font: switches the alternative font off
    for c in range(11, 21):
        t[c] = (G_FONT, K_APPLY)
    t[21] = (G_UNDERLINE, K_APPLY)
    t[22] = (G_BOLD, K_CLEAR)
    t[23] = (G_ITALIC, K_CLEAR)
    t[24] = (G_UNDERLINE, K_CLEAR)
    t[25] = (G_BLINK, K_CLEAR)
    t[26] = (G_SPACING, K_APPLY)
    t[27] = (G_SWAP, K_CLEAR)
    t[28] = (G_HIDE, K_CLEAR)
    t[29] = (G_STRIKE, K_CLEAR)
    for c in range(30, 39):
        t[c] = (G_FG, K_APPLY)
    t[39] = (G_FG, K_CLEAR)
    for c in range(40, 49):
        t[c] = (G_BG, K_APPLY)
    t[49] = (G_BG, K_CLEAR)
    t[50] = (G_SPACING, K_CLEAR)
    t[51] = (G_BOX, K_APPLY)
    t[52] = (G_BOX, K_APPLY)
    t[53] = (G_OVERLINE, K_APPLY)
    t[54] = (G_BOX, K_CLEAR)
    t[55] = (G_OVERLINE, K_CLEAR)
    t[58] = (G_ULCOLOR, K_APPLY)
    t[59] = (G_ULCOLOR, K_CLEAR)
    for c in range(90, 98):
        t[c] = (G_FG, K_APPLY)
    for c in range(100, 108):
        t[c] = (G_BG, K_APPLY)
    return t


SGR = _sgr_table()
# the code that clears each group (what a terminal needs to see to switch the effect off)
CLEAR_CODE = {G_BOLD: 22, G_ITALIC: 23, G_UNDERLINE: 24, G_OVERLINE: 55, G_BLINK: 25, G_SWAP: 27, G_HIDE: 28,
              G_STRIKE: 29, G_FONT: 10, G_SPACING: 50, G_BOX: 54, G_FG: 39, G_BG: 49, G_ULCOLOR: 59}


def sgr_group(code):
    """effect group of an SGR code (-1: unknown).  Engine twin: pyvc.summaries.summ_sgr_group."""
    e = SGR.get(code)
    if e is None:
        return -1
    return e[0]


def sgr_kind(code):
    e = SGR.get(code)
    if e is None:
        return 0
    return e[1]


def first_code_of_text(t):
    """the integer value of the first ';'-separated parameter of a setting text, or -1"""
    head = t.split(';', 1)[0].strip()
    try:
        return int(head)
    except ValueError:
        return -1


def sgr_group_of_text(t):
    return sgr_group(first_code_of_text(t))


# ---------------------------------------------------------------------------------------------
# client-level vocabulary (has abstract twins in pyvc/summaries.py: twin_view_texts, twin_wf_ok, twin_same_value)
def view_texts(v, i):
    """ordered setting texts reported for character i ([] outside the text)"""
    return texts(view(v, i))


def wf_ok(v):
    return wf(v) and owns_lists(v)


def same_value(v, w):
    """equal text and structurally equal tables (setting objects compared by identity)"""
    return v._s == w._s and same_table(v._fmts, w._fmts)


def payload_of(x):
    """the str payload of an AnsiStr: what str.__str__, '%s' % x, print and file.write see (engine twin: the
    payload the interpreter stored at str.__new__)"""
    return str.__str__(x)


def eq_table(f, g):
    """equality of two tables with settings compared by text (what AnsiString.__eq__ compares)"""
    if len(f) != len(g):
        return False
    for key in f:
        if key not in g:
            return False
        if texts(f[key].add) != texts(g[key].add) or texts(f[key].rem) != texts(g[key].rem):
            return False
    return True


def eq_value(v, w):
    """two independently built values are equal: same text, equal tables (settings by text)"""
    return v._s == w._s and eq_table(v._fmts, w._fmts)


# ---------------------------------------------------------------------------------------------
# The conforming SGR terminal (DESIGN.md section 3: term_groups, sgr_step, eff, display).
# A terminal state is a list of 15 entries indexed by effect group (entry 0 unused); an entry is the 5-tuple of the
# parameters that set the effect, e.g. (1,-1,-1,-1,-1) for bold, (38,5,214,-1,-1), (48,2,r,g,b), or TERM_OFF.
TERM_OFF = (-1, -1, -1, -1, -1)
N_GROUPS = 15


def term_default():
    return [TERM_OFF] * N_GROUPS


def state_set(st, g, val):
    """a copy of the state with entry g replaced (engine twin: pyvc.terminal.twin_state_set, no fork on g)"""
    st2 = list(st)
    st2[g] = val
    return st2


def term_apply(state, codes):
    """the state a terminal reaches after one SGR sequence with these integer parameters (an empty parameter counts
    as 0).  Extended-colour groups 38/48/58 ; 5 ; n  and  38/48/58 ; 2 ; r ; g ; b are consumed as a whole wherever they
    occur; a 38/48/58 that does not start a complete group, and every unknown code, contribute nothing."""
    st = state
    n = len(codes)
    if n == 0:
        return term_default()
    i = 0
    while i < n:
        c = codes[i]
        if c == 38 or c == 48 or c == 58:
            if i + 1 < n and codes[i + 1] == 5:
                if i + 2 < n:
                    st = state_set(st, sgr_group(c), (c, 5, codes[i + 2], -1, -1))
                    i += 3
                else:
                    i = n   # incomplete group (it runs to the end of the sequence): contributes nothing
            elif i + 1 < n and codes[i + 1] == 2:
                if i + 4 < n:
                    st = state_set(st, sgr_group(c), (c, 2, codes[i + 2], codes[i + 3], codes[i + 4]))
                    i += 5
                else:
                    i = n   # incomplete group
            else:
                i += 1      # an introducer that starts no group contributes nothing
        else:
            k = sgr_kind(c)
            if k == K_RESET:
                st = term_default()
            elif k == K_APPLY:
                st = state_set(st, sgr_group(c), (c, -1, -1, -1, -1))
            elif k == K_CLEAR:
                st = state_set(st, sgr_group(c), TERM_OFF)
            i += 1
    return st


def codes_of_text(t):
    """integer parameters of a setting text: ';'-separated, blanks ignored, an empty parameter is 0, a parameter that
    is not a number is dropped (a terminal ignores what it cannot read)"""
    out = []
    for part in t.split(';'):
        p = part.strip()
        if p == '':
            out.append(0)
        else:
            try:
                out.append(int(p))
            except ValueError:
                pass
    return out


def eff_state(settings):
    """the effective style of a character: its settings applied in order, later ones overriding earlier ones of the
    same effect"""
    st = term_default()
    for s in settings:
        st = term_apply(st, codes_of_text(str(s)))
    return st


def _scan_output(out):
    """native terminal reading of a rendered string: list of items ('text', str) / ('sgr', [codes]) / ('other', str)"""
    items = []
    i = 0
    n = len(out)
    cur = ''
    while i < n:
        if out[i] == '\x1b' and i + 1 < n and out[i + 1] == '[':
            j = i + 2
            while j < n and not (0x40 <= ord(out[j]) <= 0x7e):
                j += 1
            if j >= n:
                cur += out[i:]
                break
            if cur:
                items.append(('text', cur))
                cur = ''
            body = out[i + 2:j]
            if out[j] == 'm':
                codes = []
                if body != '':
                    for part in body.split(';'):
                        p = part.strip()
                        if p == '':
                            codes.append(0)
                        else:
                            try:
                                codes.append(int(p))
                            except ValueError:
                                pass
                items.append(('sgr', codes))
            else:
                items.append(('other', out[i:j + 1]))
            i = j + 1
        else:
            cur += out[i]
            i += 1
    if cur:
        items.append(('text', cur))
    return items


def disp_text(out):
    """the characters a terminal prints for this output (everything that is not an SGR sequence)"""
    return ''.join(x[1] for x in _scan_output(out) if x[0] != 'sgr')


def disp_state_at(out, t0, k):
    """terminal state in force when the k-th printed character is printed (engine twin: pyvc.terminal)"""
    st = t0
    pos = 0
    for kind, val in _scan_output(out):
        if kind == 'sgr':
            st = term_apply(st, val)
        else:
            if k < pos + len(val):
                return st
            pos += len(val)
    return st


def disp_final(out, t0):
    st = t0
    for kind, val in _scan_output(out):
        if kind == 'sgr':
            st = term_apply(st, val)
    return st


def disp_nseq(out):
    return len([1 for x in _scan_output(out) if x[0] == 'sgr'])


def disp_starts_with_reset(out):
    items = _scan_output(out)
    return len(items) > 0 and items[0][0] == 'sgr' and (len(items[0][1]) == 0 or items[0][1][0] == 0)


# ---------------------------------------------------------------------------------------------
# C15: validity / parsability of a setting text, from the statement
def is_final_byte(ch):
    return 0x40 <= ord(ch) and ord(ch) <= 0x7e


def all_nonfinal(t):
    """no character of t is in 0x40-0x7E (engine twin: summaries.twin_all_nonfinal)"""
    for ch in t:
        if is_final_byte(ch):
            return False
    return True


def valid_spec(t):
    return all_nonfinal(t)


def token_value(tok):
    """the integer a ';'-separated token stands for, or -1 when it is not a plain number"""
    p = tok.strip()
    if p == '':
        return -1
    try:
        v = int(p)
    except ValueError:
        return -1
    if v < 0:
        return -1
    return v


def parsable_spec(t):
    """t is one complete known SGR parameter group other than reset: a single known code, or 38/48/58 followed by
    5;n or 2;r;g;b, all values 0..255; and it contains no final byte"""
    if not valid_spec(t):
        return False
    vals = [token_value(x) for x in t.split(';')]
    for v in vals:
        if v < 0 or v > 255:
            return False
    head = vals[0]
    if sgr_group(head) == -1 or sgr_kind(head) == K_RESET:
        return False
    if head == 38 or head == 48 or head == 58:
        if len(vals) >= 2 and vals[1] == 5:
            return len(vals) == 3
        if len(vals) >= 2 and vals[1] == 2:
            return len(vals) == 5
        return False
    return len(vals) == 1


# ---------------------------------------------------------------------------------------------
# C19 / C02: control-sequence tokenisation, from the statement ("ESC [", parameter bytes, one final byte 0x40-0x7E;
# restricted to the acceptable terminators when given, unterminated ones only when allowed).  Left-to-right: a
# candidate that is not accepted is not a sequence, and scanning resumes at the next character (so a sequence that
# begins inside a rejected candidate is still found - what a regular-expression search for the pattern finds).
def csi_tokens(s, allow_unterminated, acceptable):
    text = ''
    seqs = []
    i = 0
    n = len(s)
    while i < n:
        taken = False
        if s[i] == '\x1b' and i + 1 < n and s[i + 1] == '[':
            j = i + 2
            while j < n and not is_final_byte(s[j]):
                j += 1
            if j < n:
                term = s[j]
                end = j + 1
            else:
                term = ''
                end = n
            if (term != '' or allow_unterminated) and (acceptable is None or term in acceptable):
                seqs.append((len(text), s[i + 2:j], term))
                i = end
                taken = True
        if not taken:
            text = text + s[i]
            i += 1
    return (text, seqs)


# ---------------------------------------------------------------------------------------------
# Python's re, as the oracle of C16 (engine twins: the same assumed contract the interpreter uses for re.finditer)
import re as _re

RE_IGNORECASE = int(_re.IGNORECASE)


def re_finditer(pattern, text, flags):
    return list(_re.finditer(pattern, text, flags))


def re_escape(s):
    return _re.escape(s)


def re_groups(pattern, s, how):
    """groups (0..n) of Python's re.match / re.search / re.fullmatch of a constant pattern, or None
    (engine twin: pyvc.regex_model on strings of concrete length)"""
    m = getattr(_re, how)(pattern, s)
    if m is None:
        return None
    return tuple(m.group(i) for i in range(0, m.re.groups + 1))


# ------------------------------------------------------------------------------------------ str.replace, written from its documentation
def replace_starts(t, old, count):
    """start offsets of the occurrences str.replace(old, new, count) replaces in t: left to right, not overlapping, at
    most count when count >= 0; the empty pattern occurs before every character and at the end"""
    starts = []
    pos = 0
    n = count
    while n != 0:
        if pos == 0:
            i = t.find(old)
        else:
            i = t.find(old, pos)
        if i < 0:
            break
        starts.append(i)
        n -= 1
        if len(old) == 0:
            if i >= len(t):
                break
            pos = i + 1
        else:
            pos = i + len(old)
    return starts


def replace_expected(t, old, new, count):
    out = ''
    pos = 0
    for i in replace_starts(t, old, count):
        out = out + t[pos:i] + new
        pos = i + len(old)
    return out + t[pos:]


def replace_source(t, old, newlen, count, k):
    """where character k of the result of a replace comes from: (0, j, 0) = character j of the original,
    (1, i, o) = character o of the replacement put in for the occurrence starting at i"""
    pos = 0
    out = 0
    for i in replace_starts(t, old, count):
        seg = i - pos
        if k < out + seg:
            return (0, pos + (k - out), 0)
        out += seg
        if k < out + newlen:
            return (1, i, k - out)
        out += newlen
        pos = i + len(old)
    return (0, pos + (k - out), 0)


def splitlines_offsets(t):
    """true offsets of the lines of t: line i starts where line i-1 (with its line break) ends"""
    offs = []
    pos = 0
    for f in t.splitlines(True):
        offs.append(pos)
        pos += len(f)
    return offs


def ws_split_offsets(t, pieces, right):
    """true offsets of the pieces of t.split(None, m) / t.rsplit(None, m): pieces are separated by whitespace runs"""
    offs = []
    if not right:
        pos = 0
        for p in pieces:
            while pos < len(t) and t[pos].isspace():
                pos += 1
            offs.append(pos)
            pos += len(p)
        return offs
    pos = len(t)
    i = len(pieces) - 1
    while i >= 0:
        while pos > 0 and t[pos - 1].isspace():
            pos -= 1
        pos -= len(pieces[i])
        offs.insert(0, pos)
        i -= 1
    return offs
