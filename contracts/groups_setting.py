"""AnsiSetting.valid / parsable and the formatting-wide flags (DESIGN.md 5, C15: K1-K3)."""
import z3

from pyvc import sym, shapes, loopcut
from pyvc.harness import Group, ContractRun, Clause, run_contract
from pyvc.sym import PObj, PList, PDict, i_cmp, b_and, b_or, Z

GROUPS = []

# ============================================================================================= K1: valid (unbounded)


def inv_valid(interp, fr, i, text):
    """after i iterations no character seen so far is a final byte, and the provisional cache entry is False"""
    c = sym.ctx()
    T = text['T']
    T.chars_used = True

    def nonfinal(p):
        cp = z3.Select(T.chars, Z(p))
        return z3.Or(cp < 0x40, cp > 0x7e)
    return b_and(loopcut.forall_range(c, text['lo'], sym.i_add(text['lo'], i), nonfinal))


K1_CUTS = {('AnsiSetting.valid', 0): loopcut.ForTextCut('valid-scan', [], inv_valid)}
CL_K1 = [Clause('valid-iff-no-final-byte', 'post_valid_is_spec'), Clause('answer-cached', 'post_valid_cached')]
CL_K1C = [Clause('cached-answer-returned', 'post_cached_value_returned')]


def k1_items(tier):
    return [['fresh'], ['cached']]


def k1_task(envr, item):
    def body(c):
        S = c.opaque_text('S', 1)
        S.kind = 'setting'
        st = PObj('AnsiSetting', {'_str': sym.s_opaque(S)})
        if item[0] == 'cached':
            v = c.named_bool('cached')
            st.attrs['_valid'] = v
            run_contract(envr, c, 'AnsiSetting.valid', st, [], {}, CL_K1C, fields={'cached': v}, frame=('self',))
        else:
            run_contract(envr, c, 'AnsiSetting.valid', st, [], {}, CL_K1)

    def pool(envr):
        A = envr.program.modules['ansi_format'].native.AnsiSetting
        for t in ('1', '31', '38;5;1', 'm', '1m', 'A1', '1;2', ' ', '~', '?', '1@'):
            yield ('AnsiSetting.valid', A(t), [], {}, {})
    return ContractRun(body, CL_K1 if item[0] == 'fresh' else CL_K1C, cuts=K1_CUTS, pool=pool if item[0] == 'fresh' else None)


GROUPS.append(Group('K1', 'AnsiSetting.valid is True exactly when the text has no character in 0x40-0x7E; the answer is cached',
                    ['C15', 'C01'], 'U', ['AnsiSetting.valid'], k1_items, k1_task,
                    bounds='none: any text length (loop cut by the invariant "no final byte among the first i characters")'))

# ============================================================================================= K1b: valid on short texts (bounded)
# stands in when the loop of AnsiSetting.valid no longer has the shape the invariant of K1 is written for
K1B_ALPHABET = (48, 57, 59, 32, 63, 64, 65, 109, 126, 127, 95)


def k1b_items(tier):
    return [[n] for n in range(1, (4 if tier == 'quick' else 6))]


def k1b_task(envr, item):
    def body(c):
        cps = []
        for i in range(item[0]):
            cp = c.named_int('c%d' % i)
            c.assume(b_or(*[i_cmp('==', cp, a) for a in K1B_ALPHABET]))
            cps.append(cp)
        st = PObj('AnsiSetting', {'_str': sym.s_from_chars(cps)})
        run_contract(envr, c, 'AnsiSetting.valid', st, [], {}, CL_K1)
    return ContractRun(body, CL_K1)


GROUPS.append(Group('K1b', 'AnsiSetting.valid on short texts over the boundary bytes of the final-byte range (bounded stand-in for K1)',
                    ['C15'], 'B', ['AnsiSetting.valid'], k1b_items, k1b_task,
                    bounds='texts of length <=3/5 over 0 9 ; space ? @ A m ~ DEL _ (symbolic characters)'))

# ============================================================================================= K2: parsable (bounded text length)
# alphabet of the property: digits, ';', space, other parameter bytes, final bytes
K2_ALPHABET = (48, 49, 50, 51, 53, 56, 57, 59, 32, 58, 63, 109, 65, 95, 64, 126)
CL_K2 = [Clause('parsable-iff-one-complete-known-group', 'post_parsable_is_spec'), Clause('answer-cached', 'post_parsable_cached')]


def k2_items(tier):
    L = 4 if tier == 'quick' else 6
    out = [['chars', n] for n in range(1, L + 1)]
    out += [['tokens', k] for k in range(1, 7)]
    return out


def k2_task(envr, item):
    mode, n = item

    def body(c):
        if mode == 'chars':
            cps = []
            for i in range(n):
                cp = c.named_int('c%d' % i)
                c.assume(b_or(*[i_cmp('==', cp, a) for a in K2_ALPHABET]))
                cps.append(cp)
            text = sym.s_from_chars(cps)
        else:
            # n ';'-separated numbers with symbolic values (covers long groups such as 38;2;r;g;b and out-of-range values)
            atoms = []
            for i in range(n):
                if i:
                    atoms.append(('lit', ';'))
                atoms.append(('istr', c.named_int('v%d' % i, 0, 300)))
            text = sym.mk_rope(atoms)
        st = PObj('AnsiSetting', {'_str': text})
        run_contract(envr, c, 'AnsiSetting.parsable', st, [], {}, CL_K2)
    return ContractRun(body, CL_K2, use=('K1',) if mode == 'tokens' else ())


GROUPS.append(Group('K2', 'AnsiSetting.parsable is True exactly for one complete known SGR parameter group other than reset',
                    ['C15', 'C01'], 'B', ['AnsiSetting.parsable', 'AnsiSetting.to_list', 'AnsiSetting.valid',
                                          '_AnsiControlFn.seq_starts_with_fn'], k2_items, k2_task,
                    bounds='texts of length <=4/6 over the alphabet digits ; space : ? m A _ (symbolic characters), and texts of 1-6 '
                    '";"-separated numbers with symbolic values 0..300', assumes=['K1', 'T1']))


# ============================================================================================= K3: formatting-wide flags
CL_K3V = [Clause('conjunction-of-valid-over-settings-in-use', 'post_is_formatting_valid')]
CL_K3P = [Clause('conjunction-of-parsable-over-settings-in-use', 'post_is_formatting_parsable')]


def k3_items(tier):
    shp = shapes.table_shapes(3, 2, 2, 2, reuse=False)
    out = []
    for sh in shp:
        n = shapes.shape_nobj(sh)
        kinds = [[]] if n == 0 else ([['code'], ['chars']] if n == 1 else [['code', 'chars'], ['chars', 'chars'], ['code', 'code']])
        for ks in kinds:
            for fn in ('is_formatting_valid', 'is_formatting_parsable', 'is_optimizable'):
                out.append([sh, ks, fn])
    return out


def k3_task(envr, item):
    shape, kinds, fn = item

    def body(c):
        sett = {}
        for j, k in enumerate(kinds):
            if k == 'code':
                text = sym.mk_rope([('istr', c.named_int('code%d' % j, 0, 300))])
            else:
                cps = []
                for i in range(2):
                    cp = c.named_int('c%d_%d' % (j, i))
                    c.assume(b_or(*[i_cmp('==', cp, a) for a in K2_ALPHABET]))
                    cps.append(cp)
                text = sym.s_from_chars(cps)
            sett[j] = PObj('AnsiSetting', {'_str': text})
        # the table is a dict in insertion order, which is not index order once a range was applied inside an older one
        import itertools
        perms = list(itertools.permutations(range(len(shape))))
        order = perms[c.choice(len(perms))] if len(shape) > 1 else None
        s, info = shapes.build_ansistring(c, shape, 'a', settings=sett, key_order=order)
        cl = CL_K3V if fn == 'is_formatting_valid' else CL_K3P
        run_contract(envr, c, 'AnsiString.' + fn, s, [], {}, cl)
    return ContractRun(body, CL_K3V if fn == 'is_formatting_valid' else CL_K3P, use=('K1',))


GROUPS.append(Group('K3', 'is_formatting_valid / is_formatting_parsable / is_optimizable are the conjunction of valid / parsable over '
                    'the settings in use', ['C15', 'C01'], 'B', ['AnsiString.is_formatting_valid', 'AnsiString.is_formatting_parsable',
                                                              'AnsiString.is_optimizable'], k3_items, k3_task,
                    bounds='change points N<=3, objects<=2; setting texts: str(code) with code 0..300, or two symbolic characters over '
                    'the property alphabet', assumes=['K1', 'K2']))


# ============================================================================================= S1: rgb / color256 (unbounded)
CL_RGB = [Clause('components-clamped-or-24-bit-split-component-selects-introducer', 'post_rgb_settings')]
CL_RGBP = [Clause('components-clamped-or-24-bit-split-component-selects-introducer', 'post_rgb_settings'),
           Clause('in-range-results-are-parsable', 'post_result_settings_parsable')]
CL_C256 = [Clause('introducer-5-value', 'post_color256_settings')]
CL_C256P = [Clause('introducer-5-value', 'post_color256_settings'), Clause('in-range-results-are-parsable', 'post_result_settings_parsable')]
RAISES_RGB = {'ValueError': 'raises_rgb'}
COMPONENTS = ('FOREGROUND', 'BACKGROUND', 'UNDERLINE', 'DOUBLE_UNDERLINE')


def s1_items(tier):
    out = []
    for cls in ('_AnsiControlFn', 'AnsiFormat'):
        for comp in COMPONENTS:
            for form in ('three', 'one', 'one-inrange', 'three-inrange', 'g-only', 'b-only'):
                out.append([cls, 'rgb', comp, form])
            out.append([cls, 'color256', comp, 'any'])
            out.append([cls, 'color256', comp, 'inrange'])
        for alias in ('fg_rgb', 'bg_rgb', 'ul_rgb', 'dul_rgb'):
            out.append([cls, 'alias-rgb', alias, 'three'])
        for alias in ('fg_color256', 'bg_color256', 'ul_color256', 'dul_color256', 'fg_colour256', 'bg_colour256',
                      'ul_colour256', 'dul_colour256', 'colour256'):
            out.append([cls, 'alias-c256', alias, 'any'])
    return out


ALIAS_COMP = {'fg': 'FOREGROUND', 'bg': 'BACKGROUND', 'ul': 'UNDERLINE', 'dul': 'DOUBLE_UNDERLINE', 'colour256': 'FOREGROUND'}


def s1_task(envr, item):
    cls, kind, comp, form = item
    I = envr.interp
    cct = envr.program.enum_native['ColorComponentType']
    inr = form.endswith('inrange')
    if kind == 'rgb':
        clauses, raises, names = (CL_RGBP if inr else CL_RGB), RAISES_RGB, None
    elif kind == 'color256':
        clauses, raises, names = (CL_C256P if inr else CL_C256), None, ['val', 'component']
    elif kind == 'alias-rgb':
        clauses, raises, names = CL_RGB, RAISES_RGB, None
    else:
        clauses, raises, names = CL_C256, None, ['val']

    def body(c):
        if kind == 'rgb':
            component = I.lift_enum(cct[comp])
            x = c.named_int('x', 0, 0xFFFFFF) if form == 'one-inrange' else c.named_int('x')
            if form.startswith('three'):
                g = c.named_int('g', 0, 255) if inr else c.named_int('g')
                b = c.named_int('b', 0, 255) if inr else c.named_int('b')
                if inr:
                    c.assume(b_and(i_cmp('>=', x, 0), i_cmp('<=', x, 255)))
            elif form.startswith('one'):
                g = b = None
            elif form == 'g-only':
                g, b = c.named_int('g'), None
            else:
                g, b = None, c.named_int('b')
            run_contract(envr, c, cls + '.rgb', None, [x, g, b, component], {}, clauses, raises=raises)
        elif kind == 'color256':
            component = I.lift_enum(cct[comp])
            v = c.named_int('val', 0, 255) if inr else c.named_int('val')
            run_contract(envr, c, cls + '.color256', None, [v, component], {}, clauses, arg_names=names)
        elif kind == 'alias-rgb':
            component = I.lift_enum(cct[ALIAS_COMP[comp.split('_')[0]]])
            x, g, b = c.named_int('x'), c.named_int('g'), c.named_int('b')
            run_contract(envr, c, cls + '.' + comp, None, [x, g, b], {}, clauses, raises=raises, fields={'component': component})
        else:
            component = I.lift_enum(cct[ALIAS_COMP[comp.split('_')[0]]])
            v = c.named_int('val')
            run_contract(envr, c, cls + '.' + comp, None, [v], {}, clauses, fields={'component': component}, arg_names=names)
    return ContractRun(body, clauses, raises=raises, names=names)


GROUPS.append(Group('S1', 'rgb() / color256() helpers and their fg_/bg_/ul_/dul_ aliases (both on _AnsiControlFn and AnsiFormat): '
                    'clamping, 24-bit split, component selects the introducer, underline forms switch underline on',
                    ['C14', 'C15'], 'U', ['_AnsiControlFn.rgb', '_AnsiControlFn.color256', 'AnsiFormat.rgb', 'AnsiFormat.color256',
                                          '_AnsiControlFn.fn'], s1_items, s1_task, bounds='none: all integers'))


# ============================================================================================= S2-S5: spellings of settings (C14)
CL_SAME = [Clause('same-settings-as-the-reference-spelling', 'post_scrub_same_as_reference')]
RAISES_S = {'ValueError': None, 'TypeError': None}


def _member_keys(envr):
    return list(envr.program.enum_native['AnsiFormat'].__members__.keys())


def s3_items(tier):
    # the member names are read from the class under test when the task runs; items are index ranges
    return [[lo, lo + 50] for lo in range(0, 850, 50)]


def _s3_fail(envr, c, k, v, member, what):
    """a spelling of member k failed in the symbolic run: confirm on the real code (the spellings are concrete values)"""
    from pyvc import concretize
    SP = envr.program.modules['ansi_string'].native._AnsiSettingPoint
    if isinstance(v, (str, int)):
        nv = v
    elif isinstance(v, sym.PList):
        nv = list(v.items)
    elif isinstance(v, tuple):
        nv = tuple(list(x.items) if isinstance(x, sym.PList) else x for x in v)
    else:
        nv = member
    want = [str(s) for s in member.ansi_settings]
    try:
        got = [str(s) for s in SP._scrub_ansi_settings(nv)]
        msg = None if got == want else 'settings %r instead of %r' % (got, want)
    except Exception as e:  # noqa
        msg = 'raised %s: %s' % (type(e).__name__, e)
    if msg is None:
        raise sym.Unsupported('S3: symbolic run (%s) and native run disagree for %r' % (what, nv))
    c.record('spelling-gives-the-member-settings', False, 'z3', '%s: %r %s' % (k, nv, msg), native_replay={
        'status': 'REPRODUCED', 'call': '_AnsiSettingPoint._scrub_ansi_settings',
        'pre': {'self': None, 'args': [concretize.describe(nv)], 'kwargs': {}},
        'failed_clauses': ['spelling-gives-the-member-settings (%s: %s)' % (k, msg)], 'result': None, 'exception': None,
        'post_self': None})


def s3_task(envr, item):
    lo, hi = item
    I = envr.interp
    fmt = envr.program.enum_native['AnsiFormat']

    def body(c):
        keys = _member_keys(envr)[lo:hi]
        c.in_spec += 1
        for k in keys:
            member = fmt[k]
            expected = sym.PList([str(s) for s in member.ansi_settings])
            variants = [k, k.lower(), k.lower().replace('_', ' '), k.title().replace('_', '-'), I.lift_enum(member)]
            if k.count('_') >= 2:
                # spaces and hyphens mixed in one name, letter case alternating
                parts = k.split('_')
                mixed = parts[0].lower()
                for j, part in enumerate(parts[1:]):
                    mixed += (' ' if j % 2 else '-') + (part.upper() if j % 2 else part.capitalize())
                variants.append(mixed)
            codes = ';'.join(str(s) for s in member.ansi_settings)
            if all(ch.isdigit() or ch == ';' for ch in codes):
                variants.append(codes)                                   # ';'-separated codes as one string
                variants.append(sym.PList(['[' + str(s) for s in member.ansi_settings]))   # verbatim after '['
                ints = [int(x) for x in codes.split(';')]
                variants.append(sym.PList(ints))                         # as integers
                variants.append((sym.PList(ints),))                      # nested (a group is never split across levels)
            for v in variants:
                try:
                    res = I.call_name('_AnsiSettingPoint._scrub_ansi_settings', v)
                except sym.PyExc as e:
                    _s3_fail(envr, c, k, v, member, 'raised %r' % (e,))
                    continue
                got = I.call_name('texts', res)
                if I.truth(I.bm.v_eq(I, got, expected)):
                    c.prove('same-settings:%s' % k, True, detail=repr(v)[:60])
                else:
                    _s3_fail(envr, c, k, v, member, 'different settings')
                for s in res.items:
                    c.prove('parsable:%s' % k, I.truth(I.call_name('parsable_spec', I.bm.to_str(I, s))))
        c.in_spec -= 1
    return ContractRun(body, [], replayable=False)


GROUPS.append(Group('S3', 'every AnsiFormat member: its name in any letter case with spaces or hyphens, the member itself, its codes as '
                    'string / verbatim / ints / nested give the same settings, all valid and parsable', ['C14', 'C15'], 'U',
                    ['_AnsiSettingPoint._scrub_ansi_settings', '_AnsiSettingPoint._scrub_ansi_format_string', 'AnsiFormat.__init__',
                     'parse_graphic_sequence'], s3_items, s3_task,
                    bounds='none (finite: all ~800 names of AnsiFormat.__members__ x 5-9 spellings, exhaustive)'))


S4_PARTS = ((0, 37), (38, 38), (39, 47), (48, 48), (49, 57), (58, 58), (59, 255))


def s4_items(tier):
    K = 4 if tier == 'quick' else 5
    out = []
    for k in range(1, K + 1):
        for nest in range(0, 4):
            if k >= 4:
                # split by the range of the first code (parallelism; the union is 0..255)
                for part in range(len(S4_PARTS)):
                    out.append([k, nest, part])
            else:
                out.append([k, nest, None])
    out.append([4, 'group-nested', None])
    return out


def s4_task(envr, item):
    k, nest, part = item
    I = envr.interp

    def body(c):
        vals = [c.named_int('v%d' % i, 0, 255) for i in range(k)]
        if part is not None:
            c.assume(b_and(i_cmp('>=', vals[0], S4_PARTS[part][0]), i_cmp('<=', vals[0], S4_PARTS[part][1])))
            if nest in (1, 2) and S4_PARTS[part][0] == S4_PARTS[part][1]:
                raise sym.Infeasible()
        if nest in (1, 2):
            # nesting must not cut through an extended-colour group: no introducer among the codes of these two forms
            for v in vals:
                c.assume(b_and(i_cmp('!=', v, 38), i_cmp('!=', v, 48), i_cmp('!=', v, 58)))
        flat = sym.PList(list(vals))
        ref = I.call_name('_AnsiSettingPoint._scrub_ansi_settings', flat)
        expected = I.call_name('texts', ref)
        if nest == 0:
            arg = tuple(vals)
        elif nest == 1:
            arg = sym.PList([vals[0], sym.PList(list(vals[1:]))]) if k > 1 else sym.PList([sym.PList([vals[0]])])
        elif nest == 2:
            arg = (sym.PList(list(vals[:-1])), (vals[-1],)) if k > 1 else ((vals[0],),)
        elif nest == 'group-nested':
            # [v0, [intro, 5, n]] is the same as [v0, intro, 5, n]
            intro = [38, 48, 58][c.choice(3)]
            c.assume(b_and(i_cmp('!=', vals[0], 38), i_cmp('!=', vals[0], 48), i_cmp('!=', vals[0], 58)))
            flat = sym.PList([vals[0], intro, 5, vals[3]])
            ref = I.call_name('_AnsiSettingPoint._scrub_ansi_settings', flat)
            expected = I.call_name('texts', ref)
            arg = sym.PList([vals[0], sym.PList([intro, 5, vals[3]])])
        else:
            atoms = []
            for i, v in enumerate(vals):
                if i:
                    atoms.append(('lit', ';'))
                atoms.append(('istr', v))
            arg = sym.mk_rope(atoms)
            arg = sym.expand_istr(arg)
        run_contract(envr, c, '_AnsiSettingPoint._scrub_ansi_settings', None, [arg], {}, CL_SAME, fields={'expected': expected},
                     raises=RAISES_S, frame=('settings',))
    return ContractRun(body, CL_SAME, raises=RAISES_S, frame=('settings',), use=('K1',))


GROUPS.append(Group('S4', 'nested lists / tuples and ";"-separated strings of integer codes flatten to the settings of the flat list '
                    '(adjacent integers grouped into extended-colour groups)', ['C14'], 'B',
                    ['_AnsiSettingPoint._scrub_ansi_settings', '_AnsiSettingPoint._scrub_ansi_format_string',
                     '_AnsiSettingPoint._scrub_ansi_format_int', 'parse_graphic_sequence'], s4_items, s4_task,
                    bounds='1-4/5 integer codes with symbolic values 0..255; three nestings and the string form', assumes=['J1']))

S5_PREFIXES = ('', 'fg_', 'bg_', 'ul_', 'dul_')


def s5_items(tier):
    out = []
    for pre in S5_PREFIXES:
        for form in ('rgb3', 'rgb3sp', 'rgb3br', 'rgb3mix', 'rgb1', 'rgb1hex', 'c256', 'c256hex', 'colour256'):
            out.append([pre, form])
    for bad in ('rgb(', 'rgb()', 'rgb(1,2)', 'rgb(1,2,3', 'rgb(1,,3)', 'rgb(0x,1,2)', 'color256()', 'colr256(1)', 'rgb(1;2;3)',
                'xg_rgb(1,2,3)', 'rgb(1,2,3,4)'):
        out.append(['bad', bad])
    return out


def _digits(c, name, n, hexa=False):
    cps = []
    for i in range(n):
        cp = c.named_int('%s%d' % (name, i))
        if hexa:
            c.assume(b_or(b_and(i_cmp('>=', cp, 48), i_cmp('<=', cp, 57)), b_and(i_cmp('>=', cp, 97), i_cmp('<=', cp, 102)),
                          b_and(i_cmp('>=', cp, 65), i_cmp('<=', cp, 70))))
        else:
            c.assume(b_and(i_cmp('>=', cp, 48), i_cmp('<=', cp, 57)))
        cps.append(cp)
    return cps


def _value(c, cps, base):
    I = sym  # noqa
    v = 0
    for cp in cps:
        if base == 10:
            d = sym.i_sub(cp, 48)
        else:
            d = sym.atom(__import__('z3').If(sym.Z(cp) <= 57, sym.Z(cp) - 48, __import__('z3').If(sym.Z(cp) <= 70, sym.Z(cp) - 55, sym.Z(cp) - 87)))
        v = sym.i_add(sym.i_mul(v, base), d)
    return v


def s5_task(envr, item):
    pre, form = item
    I = envr.interp

    def body(c):
        if pre == 'bad':
            run_contract(envr, c, '_AnsiSettingPoint._parse_rgb_string', None, [form], {}, CL_RGBS, fields={'expected': None},
                         raises={'ValueError': None})
            return

        def chars(s):
            return [ord(ch) for ch in s]
        if form == 'rgb3mix':
            # each component independently decimal or 0x-hexadecimal
            hexs = [bool(c.choice(2)) for _ in 'rgb']
            ds = [_digits(c, x, 1 + c.choice(2), h) for x, h in zip('rgb', hexs)]
            cps = chars(pre + 'rgb(')
            for j in range(3):
                cps = cps + (chars(',') if j else []) + (chars('0x') if hexs[j] else []) + ds[j]
            cps = cps + chars(')')
            vals = [_value(c, d, 16 if h else 10) for d, h in zip(ds, hexs)]
            c.in_spec += 1
            expected = I.call_name('rgb_expected', pre, *vals)
            c.in_spec -= 1
        elif form.startswith('rgb3'):
            ds = [_digits(c, x, 1 + c.choice(3)) for x in 'rgb']
            sp = chars(' ') if form == 'rgb3sp' else []
            ob, cb = (chars('['), chars(']')) if form == 'rgb3br' else ([], [])
            cps = chars(pre + 'rgb(') + ob + sp + ds[0] + sp + chars(',') + sp + ds[1] + chars(',') + ds[2] + sp + cb + chars(')')
            vals = [_value(c, d, 10) for d in ds]
            c.in_spec += 1
            expected = I.call_name('rgb_expected', pre, *vals)
            c.in_spec -= 1
        elif form in ('rgb1', 'rgb1hex'):
            hexa = form.endswith('hex')
            d = _digits(c, 'x', 1 + c.choice(6 if hexa else 3), hexa)
            cps = chars(pre + 'rgb(') + (chars('0x') if hexa else []) + d + chars(')')
            c.in_spec += 1
            expected = I.call_name('rgb24_expected', pre, _value(c, d, 16 if hexa else 10))
            c.in_spec -= 1
        else:
            hexa = form.endswith('hex')
            d = _digits(c, 'n', 1 + c.choice(2 if hexa else 3), hexa)
            word = 'colour256(' if form == 'colour256' else 'color256('
            cps = chars(pre + word) + (chars('0x') if hexa else []) + d + chars(')')
            c.in_spec += 1
            expected = I.call_name('c256_expected', pre, _value(c, d, 16 if hexa else 10))
            c.in_spec -= 1
        s = sym.s_from_chars(cps)
        run_contract(envr, c, '_AnsiSettingPoint._parse_rgb_string', None, [s], {}, CL_RGBS, fields={'expected': expected},
                     raises={'ValueError': None})
    return ContractRun(body, CL_RGBS, raises={'ValueError': None})


CL_RGBS = [Clause('string-directive-gives-the-helper-settings', 'post_parse_rgb_string')]
GROUPS.append(Group('S5', "string directives 'rgb(r,g,b)', 'rgb(0xRRGGBB)', '[fg_|bg_|ul_|dul_]colo[u]r256(n)' give the settings of the "
                    'helper calls; malformed ones are rejected', ['C14'], 'B', ['_AnsiSettingPoint._parse_rgb_string',
                                                                              'AnsiFormat.rgb', 'AnsiFormat.color256'],
                    s5_items, s5_task, bounds='templates with 1-3 symbolic decimal digits (1-6 hex digits) per value, optional '
                    'blanks / brackets, all five prefixes, color/colour; a list of malformed strings', assumes=['S1']))


# ------------------------------------------------------------------------------------------ S2: rejected spellings
CL_REJECT = [Clause('rejected-not-accepted', 'post_never_returns')]
BAD_NAMES = ('blod', 'red!', 'bold,red', ' ', 'rgb', '1.5', '0x10', 'fg_', 'bold;;nope', 'bold;nope', 'rgb(1,2)', 'rgb(1,2,3',
             'color256()', 'colr256(1)', 'rgb(1;2;3)', 'xg_rgb(1,2,3)', 'rgb(1,2,3,4)', 'rgb(-1,2,3)', 'color256(-1)', 'RGB(1,2,3)x',
             '1;-2', 'bold red', '_bold', 'bold_', '--', 'ul_rgb', 'fg_color256(1.0)', 'rgb(g,0,0)')


def s2_items(tier):
    out = [['neg', w] for w in ('top', 'list', 'nested', 'tuple', 'after-name', 'str', 'str-second')]
    out += [['name', b] for b in BAD_NAMES]
    out += [['char', lo] for lo in (0, 1)]
    out += [['type', t] for t in ('none', 'float', 'dict', 'bytes', 'bool-in-dict', 'nested-none', 'set-obj-prop')]
    out += [['self', w] for w in ('direct', 'indirect', 'deep', 'tuple-in-list', 'twins', 'twins-named')]
    return out


def s2_task(envr, item):
    kind, what = item
    I = envr.interp
    expected_exc = 'TypeError' if kind == 'type' else 'ValueError'
    raises = {expected_exc: None}

    def body(c):
        mu = bool(c.choice(2))
        if kind == 'neg':
            v = c.named_int('v')
            c.assume(i_cmp('<', v, 0))
            if what == 'top':
                arg = v
            elif what == 'list':
                arg = sym.PList([1, v])
            elif what == 'nested':
                arg = sym.PList(['bold', (sym.PList([v]),)])
            elif what == 'tuple':
                arg = (v, 4)
            elif what == 'after-name':
                arg = sym.PList(['red', v])
            else:
                c.assume(i_cmp('>=', v, -999))
                atoms = [('istr', v)] if what == 'str' else [('lit', '1;'), ('istr', v)]
                arg = sym.expand_istr(sym.mk_rope(atoms))
        elif kind == 'name':
            arg = what
        elif kind == 'char':
            # one or two characters that are neither digits, ';', '[' nor letters/space/-/_ (no member name, no number)
            cps = [c.named_int('ch%d' % i, 33, 126) for i in range(1 + what)]
            for cp in cps:
                c.assume(b_and(b_or(i_cmp('<', cp, 48), i_cmp('>', cp, 57)), i_cmp('!=', cp, 59), i_cmp('!=', cp, 91),
                               i_cmp('!=', cp, 45), i_cmp('!=', cp, 95), i_cmp('!=', cp, 43),
                               b_or(i_cmp('<', cp, 65), i_cmp('>', cp, 90)), b_or(i_cmp('<', cp, 97), i_cmp('>', cp, 122))))
            arg = sym.s_from_chars(cps)
        elif kind == 'type':
            if what == 'none':
                arg = sym.PList([None])
            elif what == 'float':
                arg = sym.PList([1.5])
            elif what == 'dict':
                arg = sym.PList([sym.PDict()])
            elif what == 'bytes':
                arg = sym.PList([b'1'])
            elif what == 'bool-in-dict':
                arg = sym.PDict()
            elif what == 'nested-none':
                arg = sym.PList(['bold', sym.PList([sym.PList([None])])])
            else:
                arg = sym.PList([1, 2.0])
        else:
            if what == 'direct':
                arg = sym.PList([1])
                arg.items.append(arg)
            elif what == 'indirect':
                a = sym.PList(['bold'])
                b = sym.PList([a])
                a.items.append(b)
                arg = a
            elif what == 'deep':
                a = sym.PList(['bold'])
                arg = sym.PList([1, sym.PList([2, sym.PList([3, a])])])
                a.items.append(arg)
            elif what in ('twins', 'twins-named'):
                # two lists of the same shape containing each other (equal by value all the way down)
                a = sym.PList(['bold'] if what == 'twins-named' else [])
                b = sym.PList(['bold'] if what == 'twins-named' else [])
                a.items.append(b)
                b.items.append(a)
                arg = a
            else:
                a = sym.PList(['red'])
                a.items.append((a,))
                arg = a
        run_contract(envr, c, '_AnsiSettingPoint._scrub_ansi_settings', None, [arg, mu], {}, CL_REJECT, raises=raises)
    return ContractRun(body, CL_REJECT, raises=raises)


GROUPS.append(Group('S2', 'negative integers (any position, any nesting, in a string), unknown names and malformed directives raise '
                    'ValueError; unsupported types TypeError; a list that contains itself ValueError', ['C14', 'C09'], 'B',
                    ['_AnsiSettingPoint._scrub_ansi_settings', '_AnsiSettingPoint._scrub_ansi_format_string',
                     '_AnsiSettingPoint._scrub_ansi_format_int', '_AnsiSettingPoint._parse_rgb_string'], s2_items, s2_task,
                    bounds='all negative integers at 7 positions; %d malformed strings; all 1-2 character strings of ASCII '
                    'punctuation; 7 unsupported-type shapes; 4 self-containing shapes' % len(BAD_NAMES)))


# ------------------------------------------------------------------------------------------ S6: mixtures of forms
CL_MIX = [Clause('list-is-concatenation-of-its-elements', 'post_scrub_concat'),
          Clause('make-unique-copies-setting-objects', 'post_scrub_unique_mix')]
S6_KINDS = ('name', 'enum', 'int', 'intro', 'introstr', 'intpair', 'setobj', 'rgbstr', 'c256str', 'intstr', 'intpairstr', 'verbatim', 'nested', 'empty', 'helper')
S6_STRINGY = ('name', 'rgbstr', 'c256str', 'intstr', 'introstr', 'intpairstr', 'empty')


def s6_items(tier):
    out = []
    for a in S6_KINDS:
        for b in S6_KINDS:
            out.append([a, b])
    return out


class _Splice(list):
    """several elements contributed at the same nesting level"""


def _elems(v):
    return list(v) if isinstance(v, _Splice) else [v]


def _s6_value(envr, c, kind, tag, no_selector=False):
    """(value, objects handed in) of one element of the given kind; integers never are colour-group introducers"""
    I = envr.interp
    fmt = envr.program.enum_native['AnsiFormat']
    if kind == 'name':
        return ['Bold', 'bg-blue', 'UL RED', 'dul_rgb(1,2,3)'][c.choice(4)], []
    if kind == 'enum':
        return I.lift_enum(fmt[['ITALIC', 'FG_ORANGE', 'UL_BLUE'][c.choice(3)]]), []
    def plain(v):
        c.assume(b_and(i_cmp('!=', v, 38), i_cmp('!=', v, 48), i_cmp('!=', v, 58)))
        if no_selector:
            # directly after a lone introducer a 5 or 2 would (legitimately) be read as its selector
            c.assume(b_and(i_cmp('!=', v, 5), i_cmp('!=', v, 2)))
    if kind == 'int':
        v = c.named_int('i' + tag, 0, 255)
        plain(v)
        return v, []
    if kind in ('intro', 'introstr'):
        # a lone extended-colour introducer (kept as a setting of its own wherever it stands)
        v = [38, 48, 58][c.choice(3)]
        return (v if kind == 'intro' else str(v)), []
    if kind in ('intpair', 'intpairstr'):
        vs = [c.named_int('p%d%s' % (j, tag), 0, 255) for j in range(2)]
        for v in vs:
            c.assume(b_and(i_cmp('!=', v, 38), i_cmp('!=', v, 48), i_cmp('!=', v, 58)))
        if no_selector:
            c.assume(b_and(i_cmp('!=', vs[0], 5), i_cmp('!=', vs[0], 2)))
        if kind == 'intpair':
            return _Splice(vs), []          # two integers at the same level as the other element
        return sym.expand_istr(sym.mk_rope([('istr', vs[0]), ('lit', ';'), ('istr', vs[1])])), []
    if kind == 'setobj':
        o = I.instantiate('AnsiSetting', [['1', '38;5;7', 'zz'][c.choice(3)]], {})
        return o, [o]
    if kind == 'rgbstr':
        return ['rgb(1,2,3)', 'bg_rgb(0x102030)', 'ul_rgb( 300, 0 ,1 )'][c.choice(3)], []
    if kind == 'c256str':
        return ['color256(7)', 'dul_colour256(0x10)'][c.choice(2)], []
    if kind == 'intstr':
        v = c.named_int('s' + tag, 0, 255)
        plain(v)
        return sym.expand_istr(sym.mk_rope([('istr', v)])), []
    if kind == 'verbatim':
        return ['[1', '[38;5;1', '[?'][c.choice(3)], []
    if kind == 'nested':
        o = I.instantiate('AnsiSetting', ['3'], {})
        v = c.named_int('n' + tag, 0, 255)
        c.assume(b_and(i_cmp('!=', v, 38), i_cmp('!=', v, 48), i_cmp('!=', v, 58)))
        return sym.PList(['bold', (v, o), sym.PList([])]), [o]
    if kind == 'empty':
        return '', []
    res = I.call_name('AnsiFormat.rgb', c.named_int('r' + tag, 0, 255), 2, 3)
    return res, list(res.items)


def s6_task(envr, item):
    ka, kb = item
    I = envr.interp

    def body(c):
        mu = bool(c.choice(2))
        a, oa = _s6_value(envr, c, ka, 'a')
        b, ob = _s6_value(envr, c, kb, 'b', no_selector=ka in ('intro', 'introstr'))
        ea = I.call_name('texts', I.call_name('_AnsiSettingPoint._scrub_ansi_settings', sym.PList(_elems(a))))
        eb = I.call_name('texts', I.call_name('_AnsiSettingPoint._scrub_ansi_settings', sym.PList(_elems(b))))
        expected = sym.PList(list(ea.items) + list(eb.items))
        forms = ['list', 'tuple']
        if ka in S6_STRINGY and kb in S6_STRINGY:
            forms.append('joined')
        form = forms[c.choice(len(forms))]
        if form == 'list':
            arg = sym.PList(_elems(a) + _elems(b))
        elif form == 'tuple':
            arg = tuple(_elems(a) + _elems(b))
        else:
            arg = sym.s_concat(sym.s_concat(a, ';'), b)
        run_contract(envr, c, '_AnsiSettingPoint._scrub_ansi_settings', None, [arg, mu], {}, CL_MIX,
                     fields={'expected': expected, 'given_objects': sym.PList(oa + ob)}, raises=RAISES_S, frame=('settings',),
                     arg_names=['settings', 'make_unique'])
    return ContractRun(body, CL_MIX, raises=RAISES_S, frame=('settings',), use=('K1',), names=['settings', 'make_unique'])


GROUPS.append(Group('S6', 'mixtures: a list / tuple of two elements of any two forms (name, member, int, AnsiSetting, rgb()/color256() '
                    'string, integer string, verbatim, nested list, empty string, helper result) and the ";"-joined string of two '
                    'string forms yield the settings of the first followed by the settings of the second; make_unique copies',
                    ['C14'], 'B', ['_AnsiSettingPoint._scrub_ansi_settings', '_AnsiSettingPoint._scrub_ansi_format_string'],
                    s6_items, s6_task, bounds='two elements (one of them may be two integers in a row); 15 forms each with 1-4 representatives, integers symbolic 0..255',
                    assumes=['S3', 'S5', 'J1']))
