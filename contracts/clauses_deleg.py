"""Clauses for the wrapper class AnsiStr and the in-place switch (DESIGN.md 5: V3, V4, Z1, Z2).  PyV only."""
from spec import *  # noqa: F401,F403


def is_ansistr(x):
    return isinstance(x, str) and hasattr(x, '_s')


def equiv(a, b):
    """a (produced by AnsiStr) is the AnsiStr counterpart of b (produced by AnsiString): same text and table for
    values, wrapped as AnsiStr whose str payload is its own rendering; lists/tuples elementwise; other values equal"""
    if isinstance(b, list) or isinstance(b, tuple):
        if not (isinstance(a, list) or isinstance(a, tuple)):
            return False
        if len(a) != len(b):
            return False
        i = 0
        for y in b:
            if not equiv(a[i], y):
                return False
            i += 1
        return True
    if hasattr(b, '_fmts'):
        if not is_ansistr(a):
            return False
        return eq_value(a._s, b) and payload_of(a) == a._s.to_str()
    if b is None:
        return a is None
    return a == b


def post_ansistr_equiv(r):
    """AnsiStr.m(args) is the AnsiStr counterpart of AnsiString.m(args) in its non-in-place form"""
    m = getattr(r.old_self._s, r.mname)
    ref = m(*r.margs, **r.mkwargs)
    if r.mutator:
        # methods that only exist in mutating form on AnsiString: the reference is the mutated copy
        ref = r.old_self._s
    return equiv(r.result, ref)


def post_ansistr_receiver_untouched(r):
    """no AnsiStr method changes the value it wraps, nor its payload"""
    return r.self._s is r.wrapped and same_value(r.self._s, r.wrapped_before) and payload_of(r.self) == payload_of(r.old_self)


def post_ansistr_result_private(r):
    """a value-typed result wraps its own AnsiString, not the receiver's"""
    if is_ansistr(r.result):
        return r.result._s is not r.wrapped
    return True


# ------------------------------------------------------------------------------------------ Z1: constructor
def post_new_is_ansistr(r):
    return is_ansistr(r.result)


def post_new_equiv_ansistring(r):
    ref = r.AnsiString(r.old_s, *r.old_settings)
    return eq_value(r.result._s, ref)


def post_new_payload_is_rendering(r):
    return payload_of(r.result) == r.result._s.to_str()


def post_new_private_copy(r):
    """the wrapped value is never a caller's AnsiString object (sharing between two AnsiStr is fine: V4)"""
    if hasattr(r.s, '_fmts'):
        return r.result._s is not r.s and separate(r.result._s, r.s)
    return True


# ------------------------------------------------------------------------------------------ V3: in-place switch
def post_inplace_returns_self(r):
    if r.inplace:
        return r.result is r.self
    return r.result is not r.self


def post_noinplace_receiver_untouched(r):
    if r.inplace:
        return True
    return same_value(r.self, r.old_self)


def post_inplace_agrees(r):
    """the in-place form applied to a copy gives the value the copying form returns (same text, and - clause
    post_inplace_agrees_view - the same settings on every character)"""
    if r.inplace:
        return True
    cpy = r.old_self.copy()
    m = getattr(cpy, r.mname)
    r2 = m(*r.margs, inplace=True)
    return r2 is cpy and r2._s == r.result._s


def inplace_k_range(r):
    if r.inplace:
        return (0, 0)
    return (0, len(r.result._s))


def post_inplace_agrees_view(r):
    if r.inplace:
        return True
    cpy = r.old_self.copy()
    m = getattr(cpy, r.mname)
    r2 = m(*r.margs, inplace=True)
    return view_texts(r2, r.k) == view_texts(r.result, r.k)


# ------------------------------------------------------------------------------------------ Z3: AnsiStr iteration
def post_siter_advances(r):
    return r.self.current_idx == r.old_self.current_idx + 1 and r.self.s is r.the_string


def post_siter_result(r):
    """yields the AnsiStr counterpart of the one-character slice at that index"""
    j = r.old_self.current_idx + 1
    ref = r.old_self.s[j]
    return equiv(r.result, ref)


def post_siter_in_range(r):
    return r.old_self.current_idx + 1 < len(r.old_self.s._s)


def raises_siter_stop(r):
    return r.old_self.current_idx + 1 >= len(r.old_self.s._s)


def post_siter_start(r):
    return r.result.current_idx == -1 and r.result.s is r.self._s


# ------------------------------------------------------------------------------------------ Z4 / Z6: join and the list-valued wrappers
def post_sjoin_equiv(r):
    ref = r.AnsiString.join(*r.old_args)
    return equiv(r.result, ref)


def post_list_wrapper_equiv(r):
    m = getattr(r.old_self._s, r.mname)
    ref = m(*r.margs)
    return equiv(r.result, ref)
