"""Property -> obligation cone (DESIGN.md 6.1).  Only properties claimed in MANIFEST.json appear here.

groups: obligation groups run by `./check <id>`; groups establishing contracts that these assume through
call-by-contract summaries are added automatically (Group.assumes)."""

PROPERTIES = {
    'C04': {
        'groups': ['SL', 'G2', 'G2e'],
        'level': 'other',
        'explanation': 'Contracts on AnsiString._slice_val_to_idx (U-mode: unbounded, all integers and text lengths) and '
                       'AnsiString.__getitem__ (B-mode: bounded-symbolic in the number of change points/markers; text '
                       'length, keys, bounds, setting texts and identities symbolic), discharged by z3 on verification '
                       'conditions generated from the AST of /repo/src on every run.  Clauses: selected text, '
                       'per-character setting texts in order (Skolemised over all positions), result well-formed and closed '
                       'at its end, IndexError exactly when out of range, source unchanged, result shares no container.',
        'trusted_base': ['representation invariant wf (contracts/spec.py) over-approximates reachable values'],
        'assumptions': ['clip(), iteration and the AnsiStr wrappers are checked as delegations in group G3 when present'],
    },
    'C06': {
        'groups': ['SL', 'F3', 'N1'],
        'level': 'other',
        'explanation': 'Contract on AnsiString.apply_formatting over bounded-symbolic tables: text unchanged, no-op cases, '
                       'characters outside the slice-normalised range keep their settings in order, inside they gain exactly '
                       'the given settings (old ones keep their relative order), topmost=False puts the new settings below '
                       'everything already there, topmost=True above until another setting starts; invariant preserved; '
                       'settings argument unmodified.  _slice_val_to_idx is verified unbounded and used modularly.',
        'trusted_base': ['representation invariant wf (contracts/spec.py) over-approximates reachable values'],
        'assumptions': ['settings are given as AnsiSetting objects in this group; the other spellings are C14'],
    },
    'C07': {
        'groups': ['SL', 'M2', 'M1'],
        'level': 'other',
        'explanation': 'Contract on AnsiString.remove_formatting over bounded-symbolic tables whose setting texts are str(code) '
                       'for symbolic known SGR codes: inside the range the selected settings (by value; None = all) are gone and '
                       'the rest keeps its order; outside the range the same settings with the same relative order of every two '
                       'settings touching the same effect group (independent SGR table in contracts/spec.py); invariant '
                       'preserved; no-op cases; clear_formatting.',
        'trusted_base': ['representation invariant wf (contracts/spec.py) over-approximates reachable values',
                         'SGR effect-group table in contracts/spec.py (written from ECMA-48, checked against the library tables in group T1)'],
        'assumptions': [],
    },
}
