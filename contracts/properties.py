"""Property -> obligation cone (DESIGN.md 6.1).  Only properties claimed in MANIFEST.json appear here."""

PROPERTIES = {}
