"""Property -> obligation cone (DESIGN.md 6.1).  Only properties claimed in MANIFEST.json appear here.

groups: obligation groups run by `./check <id>`; groups establishing contracts that these assume through
call-by-contract summaries are added automatically (Group.assumes)."""

PROPERTIES = {
    'C04': {
        'groups': ['SL', 'G2', 'G2e', 'G3', 'G3i', 'Z3', 'Z2'],
        'level': 'other',
        'explanation': 'Contracts on AnsiString._slice_val_to_idx (U-mode: unbounded, all integers and text lengths) and '
                       'AnsiString.__getitem__ (B-mode: bounded-symbolic in the number of change points/markers; text '
                       'length, keys, bounds, setting texts and identities symbolic), discharged by z3 on verification '
                       'conditions generated from the AST of /repo/src on every run.  Clauses: selected text, '
                       'per-character setting texts in order (Skolemised over all positions), result well-formed and closed '
                       'at its end, IndexError exactly when out of range, source unchanged, result shares no container.',
        'trusted_base': ['representation invariant wf (contracts/spec.py) over-approximates reachable values'],
        'assumptions': ['clip() and iteration (one step of the iterator, induction over steps) are proved unbounded on abstract tables relative to the contract of __getitem__ (G3, G3i, Z3); AnsiStr.__getitem__/clip are wrappers (C13)'],
    },
    'C06': {
        'groups': ['SL', 'F3', 'F2', 'N1', 'Z2'],
        'level': 'other',
        'explanation': 'Contract on AnsiString.apply_formatting over bounded-symbolic tables: text unchanged, no-op cases, '
                       'characters outside the slice-normalised range keep their settings in order, inside they gain exactly '
                       'the given settings (old ones keep their relative order), topmost=False puts the new settings below '
                       'everything already there, topmost=True above until another setting starts; invariant preserved; '
                       'settings argument unmodified.  _slice_val_to_idx is verified unbounded and used modularly.',
        'trusted_base': ['representation invariant wf (contracts/spec.py) over-approximates reachable values'],
        'assumptions': ['settings are given as AnsiSetting objects in this group; the other spellings are C14'],
    },
    'C07': {
        'groups': ['SL', 'M2', 'M1', 'Z2'],
        'level': 'other',
        'explanation': 'Contract on AnsiString.remove_formatting over bounded-symbolic tables whose setting texts are str(code) '
                       'for symbolic known SGR codes: inside the range the selected settings (by value; None = all) are gone and '
                       'the rest keeps its order; outside the range the same settings with the same relative order of every two '
                       'settings touching the same effect group (independent SGR table in contracts/spec.py); invariant '
                       'preserved; no-op cases; clear_formatting.',
        'trusted_base': ['representation invariant wf (contracts/spec.py) over-approximates reachable values',
                         'SGR effect-group table in contracts/spec.py (written from ECMA-48, checked against the library tables in group T1)'],
        'assumptions': [],
    },
    'C05': {
        'groups': ['A1', 'A2', 'A2j', 'A3', 'A3b', 'V5', 'Z4', 'Z2'],
        'level': 'other',
        'explanation': 'Contract on AnsiString.__iadd__ over two bounded-symbolic operand tables (text concatenated; every character '
                       'keeps the setting texts, in order, of its own operand; invariant kept, i.e. nothing open at the seam; right '
                       'operand untouched; value is self; str / AnsiStr operands).  On top of that contract, unbounded (abstract '
                       'tables): __add__ = copy then +=, join = left fold of +, and the lemma s[:k] + s[k:] has the per-character '
                       'settings of s for every k; the same composite is also run on concrete tables with the real slicing and '
                       'concatenation inlined (shared setting objects, seam merge).',
        'trusted_base': ['representation invariant wf over-approximates reachable values; setting objects are shared between the '
                         'two operands only as a.copy() shares them with a (other sharing patterns are not claimed)'],
        'assumptions': ['join is checked for up to 2/3 arguments'],
    },
    'C08': {
        'groups': ['G2', 'A1', 'F3', 'F2', 'M2', 'V5', 'V3', 'X7', 'A2', 'G3', 'Z1', 'Z2', 'X4p', 'W3', 'R4'],
        'level': 'other',
        'explanation': 'C08 is the frame / freshness clause of every contract: __getitem__ leaves the source untouched and shares no '
                       'container with it; += leaves its right operand untouched; apply/remove_formatting leave the settings argument '
                       'untouched and _scrub_ansi_settings(make_unique) returns only new setting objects; copy()/AnsiString(s) build '
                       'a structurally equal value in new containers; for every method with an inplace flag the in-place form '
                       'returns the receiver and agrees with the copying form, which leaves the receiver untouched (V3); no AnsiStr '
                       'method touches the value it wraps and results wrap their own value (Z2, unbounded).',
        'trusted_base': ['representation invariant wf over-approximates reachable values'],
        'assumptions': ['"mutating either afterwards never changes the other" follows from the per-call separation clauses (no shared '
                        'dict, change point or marker list; setting objects are immutable)'],
    },
    'C03': {
        'groups': ['Q1', 'Q2', 'Q3', 'R4', 'P3', 'K1', 'K2', 'Z2'],
        'level': 'other',
        'explanation': 'The real to_str and the real set_ansi_str are executed symbolically one after the other on bounded-symbolic '
                       'tables.  Q1: AnsiString(str(s)) has the text of s and every character (Skolemised position) has the '
                       'effective style - settings reduced by the independent terminal oracle - it has in s.  Q2: simplify() keeps '
                       'text and effective style (of the valid settings), afterwards every setting in the table is valid and '
                       'parsable and is_formatting_parsable() is True; invalid settings (zz, 1m, 31;A, @) and settings holding two '
                       'parameter groups are included.  Q3: str(s) after simplify();simplify() equals str(s) after one simplify(), '
                       'and str(AnsiString(str(s))) == str(s) for a simplified s.  R4 and P3 are the separate contracts of the '
                       'renderer and the parser the round trip is composed of; K1/K2 are the contracts of AnsiSetting.valid / parsable, on which '
                       'simplify() and the optimising renderer decide what to keep and what to merge.',
        'trusted_base': ['terminal oracle (term_apply / eff_state in contracts/spec.py)', 'tokenizer summary B1 (discharged by group B1)'],
        'assumptions': ['base text without ESC', 'the effective style of a character with invalid settings is that of its valid '
                        'settings (an invalid setting ends the escape sequence: no style is defined for it)',
                        'quick tier: tables of at most 2 change points for Q2/Q3 plus one chained 3-point shape; thorough: 3 points'],
    },
    'C09': {
        'technique': 'contract-based deductive verification (per-operation contracts: allowed exceptions, unchanged-after-raise, '
                     'representation invariant preserved; VCs from the AST of the real source, discharged by z3; bounded-symbolic '
                     'for the table walkers) composed by an induction over histories on paper, plus a bounded stand-in: native '
                     'enumeration of all histories of 2/3 public calls (group E2, labelled bounded)',
        'groups': ['E2', 'SL', 'G2', 'G2e', 'A1', 'F3', 'M2', 'V5', 'Y3', 'W2', 'X6', 'S2', 'R4', 'N1', 'H1', 'Q2', 'X1', 'G3', 'X3', 'Z2'],
        'level': 'other',
        'explanation': 'Deductive part (per operation, composed by induction over histories): every contract run treats an exception '
                       'type not listed for the operation as a violation ("no-exception"), checks the exception clause of the listed '
                       'ones (IndexError exactly for an out-of-range integer index, the error str raises for the same query, '
                       'ValueError for settings the scrubber rejects / a fill string that is not one character / a step other than '
                       '1, TypeError for operands of other types) and, after a raise, that receiver and arguments are structurally '
                       'unchanged ("unchanged-after-raise").  Every state-producing operation has the clause "wf": the representation '
                       'invariant (keys within the text, every stop marker refers by identity to a setting active there, nothing '
                       'active past the end, lists owned) holds for the receiver and every result, given it held before: '
                       'constructor / copy (V5), slicing (G2, G2e), += (A1), apply (F3), remove (M2), assign_str (Y3), padding '
                       '(W2), replace (X6), the matching family as apply/remove sequences (H1), simplify (Q2), clip/strip (G3, X3).  '
                       'On a well-formed value rendering (R4), the settings queries (N1), slicing and concatenation are total: their '
                       'contracts list no exception and the self-check AnsiString.WITH_ASSERTIONS is switched on in the symbolic runs '
                       'and in every native replay.  Termination: the library has four while loops - the tokenizer (B1, cut with a '
                       'variant), replace (X6: every path is run to completion; a path that exceeds the step budget is replayed '
                       'natively under a timeout) and the integer-run loop of the scrubber (S4/S6, bounded) - all other loops are '
                       'for-loops over sequences that are not modified in the body; recursion is over the nesting of the settings '
                       'argument with a cycle check (S2).  Bounded stand-in E2 (native enumeration, not a proof): all histories '
                       'of 2/3 operations out of 58 public calls on 9 start values.',
        'trusted_base': ['wf / owns_lists in contracts/spec.py', 'the induction over histories is an argument on paper: each step is a '
                         'discharged obligation, the composition is not machine-checked'],
        'assumptions': ['operations not under a wf contract of their own (title/capitalize/... rewrite only the text: X2c; join, '
                        'partition, split: results of __getitem__ / +) inherit it from the operations they are built from',
                        'termination of for-loops rests on Python semantics (finite sequences, not mutated in the body: checked by '
                        'reading, not by the engine)'],
    },
    'C10': {
        'groups': ['X1', 'X2c', 'X3', 'X4p', 'X4r', 'X5', 'X6', 'X6u', 'X7', 'X8', 'W2', 'Z2'],
        'level': 'other',
        'explanation': 'Differential contracts against str on the base text.  Unbounded (opaque text of any length, abstract table): '
                       'the 18 query methods return what str returns (X1, wiring: the method hands all arguments to the same str '
                       'method of the base text); the six case conversions (X2c); _strip with the loop invariants "everything '
                       'counted so far is in the set" (X3: equals str.strip/lstrip/rstrip for the given or default set); '
                       'partition/rpartition with the documented absent-separator result (X4p); removeprefix/removesuffix including '
                       'the empty affix (X4r); split/rsplit with a separator (X5, results of at most 3 pieces); replace with count '
                       '0/1 (X6u); expandtabs = replace(tab, tabsize spaces) (X7).  Bounded in the text length only (L<=4/5, every '
                       'character symbolic over all of Unicode, tables abstract): replace for every count, overlapping and empty '
                       'patterns, str and AnsiString/AnsiStr replacements (X6, includes termination: a path that does not finish is '
                       'replayed natively under a timeout); splitlines and whitespace split/rsplit (X8).  ljust/rjust/center/zfill '
                       'text = format() padding (W2, bounded tables, width/fill symbolic).  AnsiStr methods are their AnsiString '
                       'counterparts (Z2).',
        'trusted_base': ['str methods on opaque texts are uninterpreted functions with the contracts listed in DESIGN.md 2.5 '
                         '(find returns -1 or a position where the pattern fits, ...)',
                         'character-class models of str.splitlines / str.split(None) (pyvc/builtins_model.py), checked against '
                         'CPython exhaustively on a 12-class alphabet up to length 4',
                         'replace_expected in contracts/spec.py (written from the str.replace documentation; compared with '
                         'str.replace by the self-test)'],
        'assumptions': ['str replacement values contain no ESC (AnsiString parses incoming str for directives by design)',
                        'empty separators (split/partition) are outside the claim, as the property says',
                        'encode, __eq__, isascii/startswith (not listed in the property) are not covered'],
    },
    'C11': {
        'groups': ['G3', 'X2c', 'X3', 'X4p', 'X4r', 'X5', 'X6', 'X6u', 'X7', 'X8', 'Y3', 'Z2'],
        'level': 'other',
        'explanation': 'Every piece returned by split/rsplit (with separator: X5 unbounded up to 3 pieces; whitespace: X8), splitlines '
                       '(X8), partition/rpartition (X4p), strip family (X3), removeprefix/removesuffix (X4r) reports for each of its '
                       'characters (Skolemised position k) the settings the original reports at the true offset + k, where the true '
                       'offset is computed in the contract from the str result (piece lengths and separator length / line and '
                       'whitespace structure), never by searching.  The pieces are produced by clip/__getitem__, whose contract '
                       '(G3, G2) is "view(result, k) == view(source, lo + k)".  Case conversions keep the settings at every '
                       'position when the length is kept (X2c).  assign_str (Y3, bounded tables, lengths symbolic): kept positions '
                       'keep their settings, added characters continue the last character, the table stays well formed.  replace '
                       '(X6/X6u) and expandtabs (X7): characters outside the matches keep their settings, a plain-str replacement '
                       'gets the settings of the first character of each match, an AnsiString/AnsiStr replacement its own, for every '
                       'match; the replacement value is not modified.',
        'trusted_base': ['as C10'],
        'assumptions': ['as C10; "settings" means the ordered list of setting texts reported by ansi_settings_at'],
    },
    'C13': {
        'groups': ['Z1', 'Z2', 'Z3', 'Z4', 'Z5', 'Z6', 'V3', 'X7', 'V5'],
        'level': 'other',
        'explanation': 'Unbounded (abstract wrapped value, every AnsiString method an uninterpreted state transformer): each of the 58 '
                       'AnsiStr methods is its AnsiString counterpart applied to a private copy and wrapped as AnsiStr, all arguments '
                       'passed through in order, the str payload of every result equals its own rendering, the receiver is never '
                       'touched; the constructor wraps what AnsiString(source, *settings) builds for all three source kinds; '
                       'iteration, join and the list-valued methods likewise.  That the in-place form a wrapper calls equals the '
                       'non-in-place AnsiString form is group V3 (real bodies; abstract tables or bounded concrete ones).',
        'trusted_base': ['AnsiString methods are deterministic functions of the structural state and their arguments (no id()/hash() '
                         'dependence: checked syntactically - the only id() use is the cycle detector of _scrub_ansi_settings)'],
        'assumptions': ['__eq__ (documented to compare renderings) and encode are outside the claim'],
    },
    'C01': {
        'groups': ['R4', 'R3', 'T1', 'K1', 'K2', 'K3', 'S2D', 'N1', 'Z1', 'Z2'],
        'level': 'other',
        'explanation': 'Contract on AnsiString.to_str for all 8 combinations of optimize/reset_start/reset_end over bounded-symbolic '
                       'tables whose setting texts are well-formed SGR parameter groups with symbolic numbers (any code 0..110: known, '
                       'unknown, clear, reset; 38/48/58;5;n; 38/48/58;2;r;g;b): the output, read by an independent conforming-terminal '
                       'interpreter (contracts/spec.py: term_apply over an SGR table written from ECMA-48), prints exactly base_str and '
                       'shows every character (Skolemised over all positions) with the effective style of the settings the value '
                       'reports for it; with reset_start it begins with a reset and the claim holds for an arbitrary prior terminal '
                       'state; with reset_end the final state is default whenever a sequence was emitted.  optimize=True/False are '
                       'display-equivalent because both equal the same expected display.  The library tables are checked against the '
                       'independent table on all 256 codes (T1); valid/parsable and settings_to_dict have their own contracts.',
        'trusted_base': ['terminal oracle in contracts/spec.py and its rope twins in pyvc/terminal.py (cross-checked natively)',
                         'representation invariant wf over-approximates reachable values'],
        'assumptions': ['base text without ESC', 'format specs are C12', 'AnsiStr renderings are delegations (C13)'],
    },
    'C14': {
        'groups': ['S1', 'S2', 'S3', 'S4', 'S5', 'S6', 'J1', 'F2'],
        'level': 'other',
        'explanation': 'The settings scrubber (_AnsiSettingPoint._scrub_ansi_settings and its helpers) is executed symbolically on the '
                       'real source.  S3: for every member of AnsiFormat.__members__ (read from the class under test, ~800 names, '
                       'exhaustive) the name in upper / lower case, with spaces, with hyphens in title case, the member object, its '
                       'codes as one ";"-string, verbatim after "[", as ints and as a nested list all give the member\'s settings, each '
                       'parsable.  S1: rgb() / color256() and all aliases for all integers (clamping, 24-bit split, introducer per '
                       'component, underline pairs) - unbounded.  S5: the string directives rgb(r,g,b) / rgb(0xRRGGBB) / '
                       '[fg_|bg_|ul_|dul_]colo[u]r256(n) with symbolic digits give the helper settings; malformed ones raise '
                       'ValueError.  S4: 1-4/5 integer codes 0..255 as tuple, nested lists/tuples and ";"-string give the settings of '
                       'the flat list; J1 ties the integer-run grouping to the terminal.  S6: every pair of forms in a list / tuple / '
                       '";"-joined string is the concatenation of the two; make_unique copies objects.  S2: negative integers at any '
                       'position, unknown names, malformed directives -> ValueError; unsupported types -> TypeError; self-containing '
                       'lists -> ValueError.  F2 carries the scrubbed settings into the value reported by ansi_settings_at.',
        'trusted_base': ['regex model (pyvc/regex_model.py) for the rgb/color256 patterns, cross-checked against re',
                         'int(text, base) model on character strings'],
        'assumptions': ['mixtures are checked pairwise (two elements); deeper mixtures rest on the recursion being the same code',
                        'integer codes 0..255 in S4/S6; extended-colour groups are not split across nesting levels'],
    },
    'C15': {
        'groups': ['K1', 'K1b', 'K2', 'K3', 'S1', 'R4', 'T1'],
        'level': 'other',
        'explanation': 'AnsiSetting.valid == "no character in 0x40-0x7E" is proved for texts of any length (loop invariant, U-mode) '
                       'including the cache; AnsiSetting.parsable == "one complete known SGR parameter group other than reset" is '
                       'checked bounded (texts of length <=4/6 over the property alphabet with symbolic characters, and 1-6 symbolic '
                       'numbers 0..300); is_formatting_valid/parsable/is_optimizable are the conjunction over the settings in use; '
                       'in-range rgb()/color256() results are parsable (all integers); renderings of valid formatting print exactly '
                       'base_str (clause printed-text-is-base-str of R4).',
        'trusted_base': ['parsable_spec / valid_spec in contracts/spec.py written from the statement'],
        'assumptions': ['setting texts over the byte alphabet named by the property (ASCII)'],
    },
    'C18': {
        'groups': ['J1', 'S2D', 'T1'],
        'level': 'other',
        'explanation': 'parse_graphic_sequence on code lists of length <=4/6 with symbolic values 0..255 (list of ints, list of '
                       'strings, ";"-separated string; both add_erroneous modes): reducing the returned settings in order gives the '
                       'state the independent terminal reaches on the same codes; every integer token is kept in erroneous mode; empty '
                       'means reset; the argument list is not modified.  settings_to_dict equals applying the codes on top of the prior '
                       'state (0-3 settings, prior dict of 0-2 entries or the shared default), arguments untouched, result new.',
        'trusted_base': ['terminal oracle term_apply in contracts/spec.py'],
        'assumptions': ['colour arguments in 0..255; a bare 38/48/58 stored as a setting is outside the settings_to_dict claim'],
    },
    'C19': {
        'groups': ['B1', 'B2', 'B3', 'B3b'],
        'level': 'other',
        'explanation': 'ParsedAnsiControlSequenceString on all strings of length <=5/7 over the character classes the tokenizer '
                       'distinguishes (ESC, [, digit, ;, m, A, x as symbolic characters), all flag combinations: unformatted_str and '
                       'sequences equal the tokenisation written from the statement (contracts/spec.py csi_tokens); formatted_str, '
                       'str() and repr() reproduce the input.  The 12 cursor/erase/scroll helpers return ESC [ args final-byte for all '
                       'integers (U-mode) and are parsed back as exactly one sequence and no text (arguments -99..999).',
        'trusted_base': ['csi_tokens in contracts/spec.py'],
        'assumptions': [],
    },
    'C02': {
        'groups': ['P3', 'P4', 'B1', 'J1', 'S2D', 'T1'],
        'level': 'other',
        'explanation': 'Text without ESC of any length is kept unchanged and unformatted (U-mode: tokenizer loop invariant and variant). '
                       'For inputs made of up to 3 SGR sequences (0-3 parameter groups each, symbolic numbers) separated and surrounded '
                       'by texts of arbitrary length, base_str is the input minus exactly the SGR sequences (a non-SGR sequence stays) '
                       'and every character (Skolemised) reports the state the independent terminal is in when it prints it.  The '
                       'character-level tokenizer contract (B1) and the code-list contract (J1) carry arbitrary code orders and '
                       'unterminated / nested candidates.',
        'trusted_base': ['terminal oracle and csi_tokens in contracts/spec.py; structured-rope tokenizer twin pyvc/tokens.py stands for '
                         'the tokenizer under contract B1'],
        'assumptions': ['surrounding texts contain no ESC in P3'],
    },
    'C16': {
        'groups': ['H1', 'F3', 'M2', 'SL', 'Z2'],
        'level': 'other',
        'explanation': 'Unbounded in text, pattern, settings, count, flags and table (abstract table; re.finditer / re.escape '
                       'uninterpreted functions of all their arguments, results of up to 3 matches): format_matching / '
                       'unformat_matching leave exactly the state reached by apply_formatting / remove_formatting(fmt, m.start(), '
                       'm.end()) over the first count matches (all if negative), with the pattern escaped unless regex and '
                       'IGNORECASE unless match_case - a swapped flag, dropped argument or off-by-one bound is a counter-model, '
                       'confirmed natively by a search over concrete patterns.  "Characters outside all matches keep their settings" '
                       'and "text never changes" then follow from the contracts of apply/remove_formatting (F3, M2, bounded tables).',
        'trusted_base': ['Python re as given (oracle and implementation use the same re calls)'],
        'assumptions': ['re.finditer results longer than 3 matches are not enumerated (bounded)'],
    },
    'C17': {
        'groups': ['N1', 'N2', 'SL', 'Z2'],
        'level': 'other',
        'explanation': 'ansi_settings_at(i) is the abstraction function itself ([] outside 0..len-1, else the active objects in '
                       'order, as a new list) and settings_at(i) the ";"-join of their texts; find_settings is checked against the '
                       'per-position settings over the inclusive slice-normalised range (Skolemised over all positions): found_start '
                       'has all given settings, nothing before it does (forward), every position up to found_end / the range end '
                       'has them, found_end lacks one; (None, None) and empty-settings cases.  Bounded-symbolic tables.',
        'trusted_base': ['representation invariant wf over-approximates reachable values'],
        'assumptions': ['searched settings given as AnsiSetting objects (other spellings: C14)'],
    },
    'C12': {
        'groups': ['W1', 'W2', 'W3', 'V3', 'Z2'],
        'level': 'other',
        'explanation': 'ljust/rjust/center/zfill on bounded-symbolic tables (width, fill character, extend flag, keys and text length '
                       'symbolic): the text is what format() produces (extra fill on the right for center), original characters keep '
                       'their settings at the shifted position, fill characters (Skolemised over all positions) take the settings of '
                       'the adjacent original character when formatting is extended and none otherwise, the invariant is kept (closing '
                       'point at the new end), ValueError for a fill that is not one character.  to_str(format_spec) for every '
                       'string-format part of length <=3/4 over the characters space x : + - < > ^ 2 7 (symbolic; the constant '
                       'regular expressions of the source are run by a matcher built from re._parser and cross-checked against re) '
                       'followed by no / an empty / a code / a name ansi part: equals doing the padding and apply_formatting on a '
                       'copy, ValueError exactly outside the grammar (or for an invalid ansi part), receiver untouched.',
        'trusted_base': ['regex matcher pyvc/regex_model.py (cross-checked against re on 44k pattern/string pairs)',
                         'format-spec grammar oracle parse_string_format in contracts/clauses_pad.py, written from the documentation'],
        'assumptions': ['the split of a format spec at the colon follows the documented pattern .?[+-]?[<>^]?[0-9]*'],
    },
}
