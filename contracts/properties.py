"""Property -> obligation cone (DESIGN.md 6.1).  Only properties claimed in MANIFEST.json appear here.

groups: obligation groups run by `./check <id>`; groups establishing contracts that these assume through
call-by-contract summaries are added automatically (Group.assumes)."""

PROPERTIES = {
    'C04': {
        'groups': ['SL', 'G2', 'G2e', 'G3', 'G3i', 'Z3'],
        'level': 'other',
        'explanation': 'Contracts on AnsiString._slice_val_to_idx (U-mode: unbounded, all integers and text lengths) and '
                       'AnsiString.__getitem__ (B-mode: bounded-symbolic in the number of change points/markers; text '
                       'length, keys, bounds, setting texts and identities symbolic), discharged by z3 on verification '
                       'conditions generated from the AST of /repo/src on every run.  Clauses: selected text, '
                       'per-character setting texts in order (Skolemised over all positions), result well-formed and closed '
                       'at its end, IndexError exactly when out of range, source unchanged, result shares no container.',
        'trusted_base': ['representation invariant wf (contracts/spec.py) over-approximates reachable values'],
        'assumptions': ['clip() and iteration (one step of the iterator, induction over steps) are proved unbounded on abstract tables relative to the contract of __getitem__ (G3, G3i, Z3); AnsiStr.__getitem__/clip are wrappers (C13)'],
    },
    'C06': {
        'groups': ['SL', 'F3', 'F2', 'N1'],
        'level': 'other',
        'explanation': 'Contract on AnsiString.apply_formatting over bounded-symbolic tables: text unchanged, no-op cases, '
                       'characters outside the slice-normalised range keep their settings in order, inside they gain exactly '
                       'the given settings (old ones keep their relative order), topmost=False puts the new settings below '
                       'everything already there, topmost=True above until another setting starts; invariant preserved; '
                       'settings argument unmodified.  _slice_val_to_idx is verified unbounded and used modularly.',
        'trusted_base': ['representation invariant wf (contracts/spec.py) over-approximates reachable values'],
        'assumptions': ['settings are given as AnsiSetting objects in this group; the other spellings are C14'],
    },
    'C07': {
        'groups': ['SL', 'M2', 'M1'],
        'level': 'other',
        'explanation': 'Contract on AnsiString.remove_formatting over bounded-symbolic tables whose setting texts are str(code) '
                       'for symbolic known SGR codes: inside the range the selected settings (by value; None = all) are gone and '
                       'the rest keeps its order; outside the range the same settings with the same relative order of every two '
                       'settings touching the same effect group (independent SGR table in contracts/spec.py); invariant '
                       'preserved; no-op cases; clear_formatting.',
        'trusted_base': ['representation invariant wf (contracts/spec.py) over-approximates reachable values',
                         'SGR effect-group table in contracts/spec.py (written from ECMA-48, checked against the library tables in group T1)'],
        'assumptions': [],
    },
    'C05': {
        'groups': ['A1', 'A2', 'A2j', 'A3', 'A3b', 'V5', 'Z4'],
        'level': 'other',
        'explanation': 'Contract on AnsiString.__iadd__ over two bounded-symbolic operand tables (text concatenated; every character '
                       'keeps the setting texts, in order, of its own operand; invariant kept, i.e. nothing open at the seam; right '
                       'operand untouched; value is self; str / AnsiStr operands).  On top of that contract, unbounded (abstract '
                       'tables): __add__ = copy then +=, join = left fold of +, and the lemma s[:k] + s[k:] has the per-character '
                       'settings of s for every k; the same composite is also run on concrete tables with the real slicing and '
                       'concatenation inlined (shared setting objects, seam merge).',
        'trusted_base': ['representation invariant wf over-approximates reachable values; setting objects are shared between the '
                         'two operands only as a.copy() shares them with a (other sharing patterns are not claimed)'],
        'assumptions': ['join is checked for up to 2/3 arguments'],
    },
    'C08': {
        'groups': ['G2', 'A1', 'F3', 'F2', 'M2', 'V5', 'V3', 'A2', 'G3', 'Z1', 'Z2', 'X4p'],
        'level': 'other',
        'explanation': 'C08 is the frame / freshness clause of every contract: __getitem__ leaves the source untouched and shares no '
                       'container with it; += leaves its right operand untouched; apply/remove_formatting leave the settings argument '
                       'untouched and _scrub_ansi_settings(make_unique) returns only new setting objects; copy()/AnsiString(s) build '
                       'a structurally equal value in new containers; for every method with an inplace flag the in-place form '
                       'returns the receiver and agrees with the copying form, which leaves the receiver untouched (V3); no AnsiStr '
                       'method touches the value it wraps and results wrap their own value (Z2, unbounded).',
        'trusted_base': ['representation invariant wf over-approximates reachable values'],
        'assumptions': ['"mutating either afterwards never changes the other" follows from the per-call separation clauses (no shared '
                        'dict, change point or marker list; setting objects are immutable)'],
    },
    'C13': {
        'groups': ['Z1', 'Z2', 'Z3', 'Z4', 'Z5', 'Z6', 'V3', 'V5'],
        'level': 'other',
        'explanation': 'Unbounded (abstract wrapped value, every AnsiString method an uninterpreted state transformer): each of the 58 '
                       'AnsiStr methods is its AnsiString counterpart applied to a private copy and wrapped as AnsiStr, all arguments '
                       'passed through in order, the str payload of every result equals its own rendering, the receiver is never '
                       'touched; the constructor wraps what AnsiString(source, *settings) builds for all three source kinds; '
                       'iteration, join and the list-valued methods likewise.  That the in-place form a wrapper calls equals the '
                       'non-in-place AnsiString form is group V3 (real bodies; abstract tables or bounded concrete ones).',
        'trusted_base': ['AnsiString methods are deterministic functions of the structural state and their arguments (no id()/hash() '
                         'dependence: checked syntactically - the only id() use is the cycle detector of _scrub_ansi_settings)'],
        'assumptions': ['__eq__ (documented to compare renderings) and encode are outside the claim'],
    },
}
