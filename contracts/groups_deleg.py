"""Delegation families: the AnsiStr wrapper (Z1, Z2, V4) and the in-place switch (V3) - DESIGN.md 5 (C08, C13).

Z2/V4 are unbounded: the receiver wraps an abstract AnsiString and every AnsiString method is an uninterpreted state
transformer (pyvc.summaries.abs_method), so what is proved is the wiring of each AnsiStr method: it works on a private
copy, calls the right method with all arguments in order, wraps the result, and never touches the value it wraps."""
import ast

from pyvc import sym, shapes, heap, abstract as ab, summaries
from pyvc.harness import Group, ContractRun, Clause, run_contract
from pyvc.sym import PObj, PList, PDict, PSlice, i_cmp, b_and, b_or
from pyvc.interp import ClassRef

GROUPS = []


from pyvc.argkinds import mk_arg  # noqa: E402


# AnsiStr method -> (positional argument kinds, keyword argument kinds, reference method on AnsiString, AnsiString
# form only mutates (returns None))
ANSISTR_METHODS = {
    '__len__': ([], {}, None, False),
    '__add__': (['operand'], {}, None, False),
    '__iadd__': (['operand'], {}, '__add__', False),
    'is_formatting_valid': ([], {}, None, False),
    'is_formatting_parsable': ([], {}, None, False),
    'is_optimizable': ([], {}, None, False),
    'to_str': (['optstr', 'bool', 'bool', 'bool'], {}, None, False),
    '__format__': (['optstr'], {}, None, False),
    '__getitem__': (['index'], {}, None, False),
    'simplify': ([], {}, None, True),
    'apply_formatting': (['settings', 'int', 'optint', 'bool'], {}, None, True),
    'remove_formatting': (['optsettings', 'int', 'optint'], {}, None, True),
    'apply_formatting_for_match': (['settings', 'any', 'int'], {}, None, True),
    'format_matching': (['str', 'settings'], {'regex': 'bool', 'match_case': 'bool', 'count': 'int'}, None, True),
    'unformat_matching': (['str', 'settings'], {'regex': 'bool', 'match_case': 'bool', 'count': 'int'}, None, True),
    'unformat_matching#0': (['str'], {'regex': 'bool', 'match_case': 'bool', 'count': 'int'}, None, True),
    'unformat_matching#none': (['str', 'none'], {}, None, True),
    'format_matching#0': (['str'], {}, None, True),
    'format_matching#2': (['str', 'settings', 'settings'], {'count': 'int'}, None, True),
    'clear_formatting': ([], {}, None, True),
    'capitalize': ([], {}, None, False),
    'casefold': ([], {}, None, False),
    'center': (['int', 'char'], {}, None, False),
    'ljust': (['int', 'char'], {}, None, False),
    'rjust': (['int', 'char'], {}, None, False),
    '__contains__': (['operand'], {}, None, False),
    'lower': ([], {}, None, False),
    'upper': ([], {}, None, False),
    'lstrip': (['optstr'], {}, None, False),
    'clip': (['optint', 'optint'], {}, None, False),
    'rstrip': (['optstr'], {}, None, False),
    'strip': (['optstr'], {}, None, False),
    'partition': (['str'], {}, None, False),
    'rpartition': (['str'], {}, None, False),
    'ansi_settings_at': (['int'], {}, None, False),
    'settings_at': (['int'], {}, None, False),
    'find_settings': (['settings', 'int', 'optint', 'bool'], {}, None, False),
    'removeprefix': (['str'], {}, None, False),
    'removesuffix': (['str'], {}, None, False),
    'replace': (['str', 'operand', 'int'], {}, None, False),
    'count': (['str', 'optint', 'optint'], {}, None, False),
    'endswith': (['str', 'optint', 'optint'], {}, None, False),
    'expandtabs': (['int'], {}, None, False),
    'find': (['str', 'optint', 'optint'], {}, None, False),
    'index': (['str', 'optint', 'optint'], {}, None, False),
    'isalnum': ([], {}, None, False), 'isalpha': ([], {}, None, False), 'isascii': ([], {}, None, False),
    'isdecimal': ([], {}, None, False), 'isdigit': ([], {}, None, False), 'isidentifier': ([], {}, None, False),
    'islower': ([], {}, None, False), 'isnumeric': ([], {}, None, False), 'isprintable': ([], {}, None, False),
    'isspace': ([], {}, None, False), 'istitle': ([], {}, None, False), 'isupper': ([], {}, None, False),
    'rfind': (['str', 'optint', 'optint'], {}, None, False),
    'rindex': (['str', 'optint', 'optint'], {}, None, False),
    'swapcase': ([], {}, None, False),
    'title': ([], {}, None, False),
    'zfill': (['int'], {}, None, False),
}
# handled by their own groups or outside the claim: __new__ (Z1), __iter__ (Z3), join (Z4), clear_formatting (Z5),
# split/rsplit/splitlines (Z6, list valued), base_str (property), __eq__ (documented to compare renderings), encode
ANSISTR_OTHER = ('__new__', '__iter__', 'join', 'split', 'rsplit', 'splitlines', 'base_str', '__eq__',
                 'encode')

CL_Z2 = [
    Clause('same-as-AnsiString-counterpart-wrapped-as-AnsiStr', 'post_ansistr_equiv'),
    Clause('receiver-untouched', 'post_ansistr_receiver_untouched'),
    Clause('result-wraps-its-own-value', 'post_ansistr_result_private'),
]


def z2_items(tier):
    return [[m] for m in sorted(ANSISTR_METHODS)]


def wrapped_ansistr(c, tag):
    inner, info = ab.abstract_ansistring(c, tag)
    pay = summaries.abs_to_str(None, None, [inner], {})
    return PObj('AnsiStr', {'__payload__': pay, '_s': inner}), inner


def z2_task(envr, item):
    pos, kw, refname, mutator = ANSISTR_METHODS[item[0]]
    mname = item[0].split('#')[0]

    def body(c):
        ab.install(c)
        # every method of AnsiStr must be accounted for (a method added to the class makes this group undecided)
        have = set(envr.program.classes['AnsiStr'].members)
        missing = have - set(k.split('#')[0] for k in ANSISTR_METHODS) - set(ANSISTR_OTHER)
        if missing:
            raise sym.Unsupported('AnsiStr methods without a contract: %s' % sorted(missing))
        x, inner = wrapped_ansistr(c, 'w')
        args = [mk_arg(c, k, 'a%d' % i) for i, k in enumerate(pos)]
        kwargs = {n: mk_arg(c, k, n) for n, k in kw.items()}
        before = heap.snapshot(inner)
        margs = tuple(args)
        if mname in ('format_matching', 'unformat_matching'):
            pass
        fields = {'mname': refname or mname, 'margs': margs, 'mkwargs': PDict(list(kwargs.items())),
                  'mutator': mutator, 'wrapped': inner, 'wrapped_before': before}
        run_contract(envr, c, 'AnsiStr.' + mname, x, args, kwargs, CL_Z2, fields=fields, raises=RAISES_ANY)
    def pool(envr):
        import itertools
        from pyvc.argkinds import native_pool, native_receivers
        from pyvc.harness import native_copy
        AS = envr.program.modules['ansi_string'].native.AnsiStr
        pools = [native_pool(envr, k) for k in pos]
        kwp = [[(n, v) for v in native_pool(envr, k)] for n, k in kw.items()]
        for base in native_receivers(envr):
            for combo in itertools.product(*pools):
                for kwc in itertools.product(*kwp):
                    x = AS(base)
                    yield ('AnsiStr.' + mname, x, list(combo), dict(kwc),
                           {'mname': refname or mname, 'margs': tuple(combo), 'mkwargs': dict(kwc), 'mutator': mutator,
                            'wrapped': x._s, 'wrapped_before': native_copy(x._s)})
    return ContractRun(body, CL_Z2, raises=RAISES_ANY, use=('GENERIC',), pool=pool)


RAISES_ANY = {'TypeError': None, 'ValueError': None, 'IndexError': None}
GROUPS.append(Group('Z2', 'every AnsiStr method is its AnsiString counterpart on a private copy, wrapped; payload = rendering',
                    ['C13', 'C08'], 'U', sorted(set('AnsiStr.' + m.split('#')[0] for m in ANSISTR_METHODS)), z2_items, z2_task,
                    bounds='none: abstract receiver, every AnsiString method an uninterpreted state transformer; '
                    'arguments symbolic and typed', assumes=['V5', 'V3']))


# ============================================================================================= Z1: AnsiStr.__new__
CL_Z1 = [
    Clause('is-an-AnsiStr', 'post_new_is_ansistr'),
    Clause('wraps-what-AnsiString-would-build', 'post_new_equiv_ansistring'),
    Clause('payload-is-own-rendering', 'post_new_payload_is_rendering'),
    Clause('wraps-a-private-copy', 'post_new_private_copy'),
]
RAISES_Z1 = {'TypeError': None}


def z1_items(tier):
    return [[src, ns] for src in ('str', 'ansistring', 'ansistr', 'int') for ns in (0, 1, 2)]


def z1_task(envr, item):
    src, ns = item

    def body(c):
        ab.install(c)
        if src == 'str':
            T = c.opaque_text('Ts')
            T.escfree = True
            s = sym.s_opaque(T)
        elif src == 'ansistring':
            s = ab.abstract_ansistring(c, 's')[0]
        elif src == 'ansistr':
            s = wrapped_ansistr(c, 's')[0]
        else:
            s = c.named_int('s')
        settings = [mk_arg(c, 'settings', 'set%d' % i) for i in range(ns)]
        run_contract(envr, c, 'AnsiStr.__new__', None, [ClassRef('AnsiStr'), s] + settings, {}, CL_Z1, raises=RAISES_Z1,
                     fields={'AnsiString': ClassRef('AnsiString')}, frame=('s',), arg_names=['cls', 's'])
    return ContractRun(body, CL_Z1, raises=RAISES_Z1, frame=('s',), use=('GENERIC',), names=['cls', 's'])


GROUPS.append(Group('Z1', 'AnsiStr(source, *settings) wraps a private copy of what AnsiString(source, *settings) builds; its str '
                    'payload is its own rendering', ['C13', 'C08'], 'U', ['AnsiStr.__new__'], z1_items, z1_task,
                    bounds='none: source str / abstract AnsiString / AnsiStr, 0-2 settings arguments', assumes=['V5']))


# ============================================================================================= Z5: clear_formatting
# AnsiStr.clear_formatting on texts that may contain ESC [ m (concrete length, symbolic characters): the result must be
# what AnsiString.clear_formatting leaves on a copy - in particular the same text.
CL_Z5 = [Clause('same-as-AnsiString-counterpart-wrapped-as-AnsiStr', 'post_ansistr_equiv'),
         Clause('receiver-untouched', 'post_ansistr_receiver_untouched')]
ESC_ALPHABET = (27, 91, 109, 49, 120)


def z5_items(tier):
    return [[n] for n in range(0, (4 if tier == 'quick' else 6))]


def z5_task(envr, item):
    n = item[0]

    def body(c):
        cps = []
        for i in range(n):
            cp = c.named_int('c%d' % i)
            c.assume(b_or(*[i_cmp('==', cp, a) for a in ESC_ALPHABET]))
            cps.append(cp)
        text = sym.s_from_chars(cps)
        inner = PObj('AnsiString', {'_fmts': PDict(), '_s': text})
        if n > 0:
            S = c.opaque_text('Sx', 1)
            S.kind = 'setting'
            x = PObj('AnsiSetting', {'_str': sym.mk_rope([('lit', '31')])})
            inner.attrs['_fmts'] = PDict([(0, PObj('_AnsiSettingPoint', {'add': PList([x]), 'rem': PList()})),
                                          (n, PObj('_AnsiSettingPoint', {'add': PList(), 'rem': PList([x])}))])
        I = envr.interp
        pay = I.call_name('AnsiString.to_str', inner)
        x = PObj('AnsiStr', {'__payload__': pay, '_s': inner})
        before = heap.snapshot(inner)
        fields = {'mname': 'clear_formatting', 'margs': (), 'mkwargs': PDict(), 'mutator': True, 'wrapped': inner,
                  'wrapped_before': before}
        run_contract(envr, c, 'AnsiStr.clear_formatting', x, [], {}, CL_Z5, fields=fields)
    return ContractRun(body, CL_Z5)


GROUPS.append(Group('Z5', 'AnsiStr.clear_formatting keeps the text (also when it contains ESC [ ... m) and drops all settings',
                    ['C13', 'C07'], 'B', ['AnsiStr.clear_formatting', 'AnsiString.clear_formatting'], z5_items, z5_task,
                    bounds='text length L<=3/5 over the characters ESC [ m 1 x (symbolic), one setting over the whole text'))


# ============================================================================================= V3: in-place switch
CL_V3 = [
    Clause('inplace-returns-self-else-a-new-object', 'post_inplace_returns_self'),
    Clause('copying-form-leaves-receiver-untouched', 'post_noinplace_receiver_untouched'),
    Clause('inplace-on-a-copy-equals-copying-form', 'post_inplace_agrees'),
    Clause('inplace-on-a-copy-same-settings-per-character', 'post_inplace_agrees_view', forall='inplace_k_range'),
]
# method -> (argument kinds before `inplace`, argument kinds after it, receiver kind)
V3_METHODS = {
    'capitalize': ([], [], 'abs'), 'casefold': ([], [], 'abs'), 'lower': ([], [], 'abs'), 'upper': ([], [], 'abs'),
    'swapcase': ([], [], 'abs'), 'title': ([], [], 'abs'),
    'clip': (['optint', 'optint'], [], 'abs'),
    'lstrip': (['optchars'], [], 'abs-chars'), 'rstrip': (['optchars'], [], 'abs-chars'), 'strip': (['optchars'], [], 'abs-chars'),
    'removeprefix': (['str'], [], 'abs'), 'removesuffix': (['str'], [], 'abs'),
    'replace': (['str', 'operand', 'smallcount'], [], 'abs'),
    'center': (['int', 'char'], ['bool'], 'table'), 'ljust': (['int', 'char'], ['bool'], 'table'),
    'rjust': (['int', 'char'], ['bool'], 'table'), 'zfill': (['int'], [], 'table'),
}
RAISES_V3 = {'ValueError': None, 'TypeError': None}


def v3_items(tier):
    out = []
    for m in sorted(V3_METHODS):
        kind = V3_METHODS[m][2]
        if kind == 'table':
            for sh in shapes.table_shapes(2, 2, 2, 2) if tier == 'quick' else shapes.table_shapes(3, 2, 2, 2):
                out.append([m, sh])
        elif kind == 'abs-chars':
            for n in range(0, 3 if tier == 'quick' else 4):
                out.append([m, n])
        else:
            out.append([m, None])
    return out


def v3_task(envr, item):
    mname, extra = item
    pre, post, kind = V3_METHODS[mname]

    def arg(c, k, name):
        if k == 'smallcount':
            return [0, 1, 2][c.choice(3)]
        if k == 'smallint':
            return [0, 1, 4][c.choice(3)]
        if k == 'optchars':
            if c.choice(2):
                return None
            return sym.s_from_chars([c.named_int('set0', 32, 122)])
        return mk_arg(c, k, name)

    def body(c):
        if kind != 'table':
            ab.install(c)
        if kind == 'table':
            s, info = shapes.build_ansistring(c, extra, 'a')
        elif kind == 'abs-chars':
            cps = [c.named_int('c%d' % i, 9, 122) for i in range(extra)]
            tb = ab.fresh_table(c, 'tbl_a')
            c.abs_tables = getattr(c, 'abs_tables', []) + [tb]
            s = PObj('AnsiString', {'_fmts': tb, '_s': sym.s_from_chars(cps)})
            c.assume(ab.WFP(tb.term, sym.Z(len(cps))))
        else:
            s, info = ab.abstract_ansistring(c, 'a')
        a1 = [arg(c, k, 'p%d' % i) for i, k in enumerate(pre)]
        inplace = c.named_bool('inplace')
        a2 = [arg(c, k, 'q%d' % i) for i, k in enumerate(post)]
        margs = tuple(a1)
        if a2:
            # the clause re-runs the method with inplace=True: later positional parameters are passed by keyword
            pass
        fields = {'mname': mname, 'margs': margs}
        run_contract(envr, c, 'AnsiString.' + mname, s, a1 + [inplace] + a2, {}, CL_V3 if not a2 else CL_V3[:2],
                     fields=fields, raises=RAISES_V3)
    def pool(envr):
        import itertools
        from pyvc.argkinds import native_pool, native_receivers
        p1 = [native_pool(envr, k) for k in pre]
        p2 = [native_pool(envr, k) for k in post]
        for base in native_receivers(envr):
            for c1 in itertools.product(*p1):
                for inp in (False, True):
                    for c2 in itertools.product(*p2):
                        yield ('AnsiString.' + mname, base, list(c1) + [inp] + list(c2), {},
                               {'mname': mname, 'margs': tuple(c1)})
    return ContractRun(body, CL_V3 if not post else CL_V3[:2], raises=RAISES_V3, use=('ABS', 'SL'), pool=pool)


GROUPS.append(Group('V3', 'in-place variants return the receiver and equal the copying variant; the copying variant leaves the '
                    'receiver untouched', ['C08', 'C13'], 'B', ['AnsiString.' + m for m in sorted(V3_METHODS)], v3_items, v3_task,
                    bounds='abstract table (unbounded) for the methods built on slicing/concatenation; concrete tables with '
                    'N<=2/3 change points for the padding methods; strip family on texts of length <=2/3; replace with '
                    'count in {0,1,2}; expandtabs is replace by group X7', assumes=['G2', 'A1', 'V5', 'SL']))


# ============================================================================================= Z3: AnsiStr.__iter__
CL_SNEXT = [Clause('advances-by-one', 'post_siter_advances'), Clause('in-range', 'post_siter_in_range'),
            Clause('yields-AnsiStr-of-the-character-at-that-index', 'post_siter_result')]
RAISES_SNEXT = {'StopIteration': 'raises_siter_stop'}
CL_SITER = [Clause('starts-before-first-character-of-the-wrapped-value', 'post_siter_start')]


def z3_items(tier):
    return [['next'], ['iter']]


def z3_task(envr, item):
    if item[0] == 'next':
        def body(c):
            ab.install(c)
            inner, info = ab.abstract_ansistring(c, 'w')
            j = c.named_int('j', -1)
            it = PObj('_AnsiStrCharIterator', {'current_idx': j, 's': inner})
            run_contract(envr, c, '_AnsiStrCharIterator.__next__', it, [], {}, CL_SNEXT, raises=RAISES_SNEXT,
                         fields={'the_string': inner}, unchanged_on_raise=False)
        return ContractRun(body, CL_SNEXT, raises=RAISES_SNEXT, use=('ABS',), unchanged_on_raise=False)

    def body2(c):
        ab.install(c)
        x, inner = wrapped_ansistr(c, 'w')
        run_contract(envr, c, 'AnsiStr.__iter__', x, [], {}, CL_SITER, frame=('self',))
    return ContractRun(body2, CL_SITER, frame=('self',), use=('ABS',))


GROUPS.append(Group('Z3', 'iterating an AnsiStr yields AnsiStr(s[0]), AnsiStr(s[1]), ... (one step; induction over steps)',
                    ['C13', 'C04'], 'U', ['_AnsiStrCharIterator.__next__', '_AnsiStrCharIterator.__init__', 'AnsiStr.__iter__'],
                    z3_items, z3_task, bounds='none: abstract wrapped value, any iterator position', assumes=['G2', 'V5']))

# ============================================================================================= Z4: AnsiStr.join
CL_SJOIN = [Clause('AnsiStr-counterpart-of-AnsiString-join', 'post_sjoin_equiv')]


def z4_items(tier):
    kinds = ('ansistring', 'str', 'ansistr')
    out = [[[]]]
    for a in kinds:
        out.append([[a]])
        for b in kinds:
            out.append([[a, b]])
    out.append([['int']])
    return out


def z4_task(envr, item):
    kinds = item[0]

    def body(c):
        ab.install(c)
        args = []
        for i, k in enumerate(kinds):
            if k == 'ansistring':
                args.append(ab.abstract_ansistring(c, 'x%d' % i)[0])
            elif k == 'ansistr':
                args.append(wrapped_ansistr(c, 'x%d' % i)[0])
            elif k == 'str':
                T = c.opaque_text('Tx%d' % i)
                T.escfree = True
                args.append(sym.s_opaque(T))
            else:
                args.append(c.named_int('bad%d' % i))
        run_contract(envr, c, 'AnsiStr.join', None, args, {}, CL_SJOIN, raises={'TypeError': None},
                     fields={'AnsiString': ClassRef('AnsiString')})
    return ContractRun(body, CL_SJOIN, raises={'TypeError': None}, use=('ABS',))


GROUPS.append(Group('Z4', 'AnsiStr.join is AnsiString.join wrapped as AnsiStr', ['C13', 'C05'], 'U', ['AnsiStr.join'], z4_items,
                    z4_task, bounds='0-2 arguments, each an abstract AnsiString, AnsiStr or str', assumes=['A1', 'V5']))

# ============================================================================================= Z6: list valued wrappers
CL_Z6 = [Clause('list-of-AnsiStr-counterparts', 'post_list_wrapper_equiv'),
         Clause('receiver-untouched', 'post_ansistr_receiver_untouched')]


def z6_items(tier):
    return [['split'], ['rsplit'], ['partition'], ['rpartition']] + [['splitlines', n] for n in range(0, 4)]


def z6_task(envr, item):
    mname = item[0]

    def body(c):
        ab.install(c)
        if mname == 'splitlines':
            # text of concrete length with symbolic characters (str.splitlines is modelled on those), abstract table
            from contracts_helpers import hybrid_string
            inner = hybrid_string(c, 'w', item[1])
            x = PObj('AnsiStr', {'__payload__': summaries.abs_to_str(None, None, [inner], {}), '_s': inner})
            args = [c.named_bool('keepends')] if c.choice(2) else []
        else:
            x, inner = wrapped_ansistr(c, 'w')
            sep = sym.s_opaque(c.opaque_text('Sep', 1))
            args = [sep] if mname in ('partition', 'rpartition') else [sep, c.named_int('maxsplit')]
        before = heap.snapshot(inner)
        run_contract(envr, c, 'AnsiStr.' + mname, x, args, {}, CL_Z6,
                     fields={'mname': mname, 'margs': tuple(args), 'wrapped': inner, 'wrapped_before': before})
    return ContractRun(body, CL_Z6, use=('ABS',))


GROUPS.append(Group('Z6', 'AnsiStr.split/rsplit/partition/rpartition wrap each piece of the AnsiString result as AnsiStr',
                    ['C13', 'C11'], 'U', ['AnsiStr.split', 'AnsiStr.rsplit', 'AnsiStr.partition', 'AnsiStr.rpartition', 'AnsiStr.splitlines'],
                    z6_items, z6_task, bounds='explicit separator, results of at most 3 pieces; abstract table; splitlines on texts of length <=3',
                    assumes=['G2', 'V5']))
