"""Rendering groups (DESIGN.md 5, C01 / C15): R4 end-to-end to_str on bounded tables, read by the terminal oracle."""
from pyvc import sym, shapes, heap
from pyvc.harness import Group, ContractRun, Clause, run_contract
from pyvc.sym import PObj, PList, PDict, i_cmp, b_and, b_or

GROUPS = []

CL_R4 = [
    Clause('printed-text-is-base-str', 'post_render_text'),
    Clause('each-character-shown-with-its-effective-style', 'post_render_char_state', forall='render_k_range'),
    Clause('reset-start-begins-with-reset', 'post_render_reset_start'),
    Clause('reset-end-leaves-default-state', 'post_render_reset_end'),
    Clause('plain-when-unformatted', 'post_render_plain_when_unformatted'),
]


def render_setting(c, kind, name):
    """a setting whose text is a well-formed SGR parameter group with symbolic numbers"""
    if kind == 'code':
        code = c.named_int('code_' + name, 0, 110)
        # a bare 38/48/58 is an incomplete extended-colour group, not a well-formed parameter group
        c.assume(b_and(i_cmp('!=', code, 38), i_cmp('!=', code, 48), i_cmp('!=', code, 58)))
        rope = sym.mk_rope([('istr', code)])
    elif kind == 'c256':
        intro = [38, 48, 58][c.choice(3)]
        n = c.named_int('n_' + name, 0, 255)
        rope = sym.mk_rope([('lit', '%d;5;' % intro), ('istr', n)])
    elif kind == 'rgb':
        intro = [38, 48, 58][c.choice(3)]
        r_, g_, b_ = (c.named_int(x + '_' + name, 0, 255) for x in 'rgb')
        rope = sym.mk_rope([('lit', '%d;2;' % intro), ('istr', r_), ('lit', ';'), ('istr', g_), ('lit', ';'), ('istr', b_)])
    else:
        raise ValueError(kind)
    return PObj('AnsiSetting', {'_str': rope})


def arbitrary_state(c):
    return PList([tuple(c.named_int('t0_%d_%d' % (g, j), -1, 255) for j in range(5)) for g in range(15)])


def default_state():
    return PList([(-1, -1, -1, -1, -1)] * 15)


def r4_items(tier):
    out = []
    if tier == 'quick':
        shp = [sh for sh in shapes.table_shapes(3, 2, 2, 2, reuse=False)
               if shapes.shape_nobj(sh) <= 1 or len(sh) <= 2 or sh in ([([0], []), ([1], []), ([], [0, 1])],
                                                                      [([0], []), ([1], [0]), ([], [1])])]
    else:
        shp = shapes.table_shapes(3, 3, 2, 2)
    for sh in shp:
        n = shapes.shape_nobj(sh)
        if n == 0:
            combos = [[]]
        elif n == 1:
            combos = [['code'], ['c256'], ['rgb']]
        elif n == 2:
            combos = [['code', 'code'], ['code', 'c256'], ['rgb', 'code'], ['c256', 'rgb'], ['c256', 'c256']] if tier == 'quick' else \
                [[a, b] for a in ('code', 'c256', 'rgb') for b in ('code', 'c256', 'rgb')]
        else:
            combos = [['code', 'code', 'code'], ['code', 'c256', 'code']]
        for ks in combos:
            for flags in range(8):
                out.append([sh, ks, flags])
    return out


def r4_task(envr, item):
    shape, kinds, flags = item

    def body(c):
        sett = {j: render_setting(c, k, 's%d' % j) for j, k in enumerate(kinds)}
        s, info = shapes.build_ansistring(c, shape, 'a', settings=sett)
        info['text'].escfree = True
        optimize = bool(flags & 1)
        reset_start = bool(flags & 2)
        reset_end = bool(flags & 4)
        t0 = arbitrary_state(c) if reset_start else default_state()
        run_contract(envr, c, 'AnsiString.to_str', s, [None, optimize, reset_start, reset_end], {}, CL_R4,
                     fields={'t0': t0}, frame=('self',))
    return ContractRun(body, CL_R4, frame=('self',), use=('K1',))


GROUPS.append(Group('R4', 'to_str (all 8 flag combinations): a conforming terminal shows base_str, each character with the '
                    'effective style of its reported settings; reset_start / reset_end as documented', ['C01', 'C15'], 'B',
                    ['AnsiString.to_str', 'AnsiString.is_optimizable', 'AnsiString.is_formatting_parsable', 'settings_to_dict',
                     'AnsiSetting.get_initial_param', 'AnsiSetting.parsable', 'AnsiSetting.to_list', '_AnsiSettingsIterator.__next__',
                     '_AnsiControlFn.seq_starts_with_fn'], r4_items, r4_task,
                    bounds='change points N<=3, setting objects<=2/3; setting texts: a symbolic code 0..110 other than a bare 38/48/58 (known, unknown, clear, '
                    'reset), 38/48/58;5;n or 38/48/58;2;r;g;b with symbolic arguments; text length, keys, flags, prior terminal '
                    'state symbolic; base text without ESC', assumes=['K1']))


# ============================================================================================= T1: tables
def t1_items(tier):
    return [['codes', 0], ['codes', 64], ['codes', 128], ['codes', 192], ['clear'], ['fns']]


def t1_task(envr, item):
    from pyvc.interp import ClassRef
    I = envr.interp

    def body(c):
        c.in_spec += 1
        if item[0] == 'codes':
            for code in range(item[1], item[1] + 64):
                r = I.call_name('table_row_ok', ClassRef('AnsiParam'), code)
                c.prove('code-%d-known-with-spec-group-and-function' % code, I.truth(r))
        elif item[0] == 'clear':
            native = envr.program.modules['ansi_param'].native
            d = I.lift(native.EFFECT_CLEAR_DICT)
            r = I.call_name('clear_dict_ok', d, ClassRef('AnsiParamEffect'))
            c.prove('effect-clear-codes', I.truth(r))
        else:
            fns = sym.PList(list(I.iterate(ClassRef('_AnsiControlFn'))))
            r = I.call_name('control_fns_ok', fns)
            c.prove('six-extended-colour-functions', I.truth(r))
        c.in_spec -= 1
    return ContractRun(body, [], replayable=False)


GROUPS.append(Group('T1', 'AnsiParam / EFFECT_CLEAR_DICT / _AnsiControlFn agree with the independent SGR table on all 256 codes',
                    ['C01', 'C02', 'C18', 'C07'], 'U', ['AnsiParam.__init__', '_AnsiControlFn.__init__'], t1_items, t1_task,
                    bounds='none (finite: all 256 codes, 15 groups, 6 functions, exhaustive)'))


# ============================================================================================= R3: str() / format() delegate to to_str
CL_R3S = [Clause('str-is-to_str', 'post_str_is_to_str')]
CL_R3F = [Clause('format-is-to_str-with-the-spec', 'post_format_is_to_str')]


def r3_items(tier):
    shp = [sh for sh in shapes.table_shapes(2, 2, 2, 2, reuse=False)]
    return [[sh, fn] for sh in shp for fn in ('__str__', '__format__none', '__format__empty')]


def r3_task(envr, item):
    shape, fn = item

    def body(c):
        sett = {j: render_setting(c, 'code', 's%d' % j) for j in range(shapes.shape_nobj(shape))}
        s, info = shapes.build_ansistring(c, shape, 'a', settings=sett)
        info['text'].escfree = True
        if fn == '__str__':
            run_contract(envr, c, 'AnsiString.__str__', s, [], {}, CL_R3S, frame=('self',))
        else:
            spec = None if fn.endswith('none') else ''
            run_contract(envr, c, 'AnsiString.__format__', s, [spec], {}, CL_R3F, frame=('self',), fields={'spec': spec},
                         arg_names=['spec_arg'])
    return ContractRun(body, CL_R3S if fn == '__str__' else CL_R3F, frame=('self',), use=('K1',),
                       names=None if fn == '__str__' else ['spec_arg'])


GROUPS.append(Group('R3', 'str(s) and format(s, "") are to_str() with its defaults', ['C01'], 'B',
                    ['AnsiString.__str__', 'AnsiString.__format__'], r3_items, r3_task,
                    bounds='change points N<=2, objects<=2 (delegation; the rendering itself is group R4)', assumes=['K1']))


# ============================================================================================= Q1-Q3: round trip, simplify (C03)
from pyvc.interp import ClassRef  # noqa: E402

CL_Q1 = [
    Clause('text-survives-the-round-trip', 'post_rt_text'),
    Clause('each-character-keeps-its-effective-style', 'post_rt_char_state', forall='rt_k_range'),
    Clause('result-well-formed-and-new', 'post_rt_result_wf'),
]
CL_Q2 = [
    Clause('text-unchanged', 'post_simplify_text'),
    Clause('each-character-keeps-its-effective-style', 'post_simplify_char_state', forall='simplify_k_range'),
    Clause('all-settings-valid-and-parsable-afterwards', 'post_simplify_all_parsable'),
]
CL_Q3 = [Clause('second-simplify-leaves-the-rendering-unchanged', 'post_simplify_idempotent')]
CL_Q3F = [Clause('simplified-value-renders-to-a-fixed-point', 'post_simplified_is_fixed_point')]


Q_RANGES = ((0, 9), (10, 29), (30, 49), (50, 110))


def q_setting(c, kind, name, part=None):
    """part: index into Q_RANGES restricting the (first) symbolic code - work items are split by it for parallelism"""
    if kind in ('code', 'c256', 'rgb'):
        st = render_setting(c, kind, name)
        if kind == 'code' and part is not None:
            code = st.attrs['_str']
            v = sym.atoms_of(code)[0][1]
            c.assume(b_and(i_cmp('>=', v, Q_RANGES[part][0]), i_cmp('<=', v, Q_RANGES[part][1])))
        return st
    if kind in ('multi', 'multiq'):
        # several parameter groups in one setting (valid, not parsable as one group); the quick form takes the second code
        # from a reset, two clear codes, a colour and an unknown code
        a = c.named_int('ma_' + name, 0, 110)
        b = c.named_int('mb_' + name, 0, 110) if kind == 'multi' else [0, 10, 22, 31, 77][c.choice(5)]
        for v in (a, b):
            if not isinstance(v, int):
                c.assume(b_and(i_cmp('!=', v, 38), i_cmp('!=', v, 48), i_cmp('!=', v, 58)))
        if part is not None:
            c.assume(b_and(i_cmp('>=', a, Q_RANGES[part][0]), i_cmp('<=', a, Q_RANGES[part][1])))
        return PObj('AnsiSetting', {'_str': sym.mk_rope([('istr', a), ('lit', ';'), ('istr', b)])})
    if kind == 'cmulti':
        # a complete extended-colour group followed by one more code in the same setting (valid, not one group)
        intro = [38, 48, 58][c.choice(3)]
        n = c.named_int('cn_' + name, 0, 255)
        b = [1, 0, 22, 3][c.choice(4)]
        return PObj('AnsiSetting', {'_str': sym.mk_rope([('lit', '%d;5;' % intro), ('istr', n), ('lit', ';%d' % b)])})
    if kind == 'invalid':
        # contains a final byte: would end the escape sequence
        return PObj('AnsiSetting', {'_str': ['zz', '1m', '31;A', '@'][c.choice(4)]})
    raise ValueError(kind)


def q_items(tier, kinds1, kinds2, quick_points=3, reuse=True):
    import itertools
    out = []
    if tier == 'quick':
        shp = [sh for sh in shapes.table_shapes(3, 2, 2, 2, reuse=False)
               if len(sh) <= quick_points and (shapes.shape_nobj(sh) <= 1 or len(sh) <= 2 or
                                               sh in ([([0], []), ([1], []), ([], [0, 1])], [([0], []), ([1], [0]), ([], [1])]))]
    else:
        shp = shapes.table_shapes(3, 2, 2, 2, reuse=reuse)
    for sh in shp:
        n = shapes.shape_nobj(sh)
        if n == 0:
            combos = [[]]
        elif n == 1:
            combos = [[k] for k in kinds1]
        else:
            combos = kinds2
        for ks in combos:
            splits = [range(len(Q_RANGES)) if k in ('code', 'multi', 'multiq') else [None] for k in ks]
            for parts in itertools.product(*splits):
                out.append([sh, ks, list(parts)])
    return out


Q_PAIRS = [['code', 'code'], ['code', 'c256'], ['rgb', 'code'], ['c256', 'rgb']]
Q_PAIRS_S = Q_PAIRS + [['multi', 'code'], ['code', 'invalid'], ['invalid', 'rgb'], ['multi', 'multi'], ['code', 'cmulti'], ['cmulti', 'c256']]


def q1_items(tier):
    return q_items(tier, ('code', 'c256', 'rgb'), Q_PAIRS)


def q2_items(tier):
    if tier == 'quick':
        its = q_items(tier, ('code', 'c256', 'rgb', 'multi', 'cmulti', 'invalid'),
                      [['code', 'c256'], ['multi', 'code'], ['code', 'invalid']], 2)
        # an outer setting over the whole text with a colour-group-plus-code setting on a prefix (and the other nesting)
        for sh in ([([0], []), ([1], []), ([], [1]), ([], [0])], [([0, 1], []), ([], [1]), ([], [0])], [([0], []), ([1], [0]), ([], [1])]):
            for part in range(len(Q_RANGES)):
                its.append([sh, ['code', 'cmulti'], [part, None]])
        return its
    return q_items(tier, ('code', 'c256', 'rgb', 'multi', 'cmulti', 'invalid'), Q_PAIRS_S, reuse=False)


def q3_items(tier):
    if tier == 'quick':
        its = q_items(tier, ('code', 'c256', 'multi'), [['code', 'c256']], 2)
        # one chained shape with a two-group setting followed by a single code (the shape of finding D27)
        chain = [([0], []), ([1], [0]), ([], [1])]
        its += [[chain, ['multiq', 'code'], [a, b]] for a in range(len(Q_RANGES)) for b in range(len(Q_RANGES))]
    else:
        its = q_items(tier, ('code', 'c256', 'rgb', 'multi'), Q_PAIRS + [['multiq', 'code']], reuse=False)
    return [it + [w] for it in its for w in ('twice', 'fixed')]


def _q_string(c, shape, kinds, parts):
    sett = {j: q_setting(c, k, 's%d' % j, parts[j]) for j, k in enumerate(kinds)}
    s, info = shapes.build_ansistring(c, shape, 'a', settings=sett)
    info['text'].escfree = True
    return s


def q1_task(envr, item):
    shape, kinds, parts = item

    def body(c):
        s = _q_string(c, shape, kinds, parts)
        run_contract(envr, c, 'roundtrip', None, [ClassRef('AnsiString'), s], {}, CL_Q1, frame=('s',))
    return ContractRun(body, CL_Q1, frame=('s',), use=('K1', 'B1', 'SL'), nosumm=('AnsiString.set_ansi_str',))


GROUPS.append(Group('Q1', 'AnsiString(str(s)) has the text of s and shows every character with the same effective style',
                    ['C03'], 'B', ['AnsiString.to_str', 'AnsiString.set_ansi_str', 'AnsiString.__init__'], q1_items, q1_task,
                    bounds='change points N<=3, setting objects <=2; setting texts: a symbolic code 0..110 (not a bare 38/48/58), '
                    '38/48/58;5;n, 38/48/58;2;r;g;b with symbolic arguments; text length and keys symbolic; base text without ESC',
                    assumes=['B1', 'K1', 'SL']))


def q2_task(envr, item):
    shape, kinds, parts = item

    def body(c):
        s = _q_string(c, shape, kinds, parts)
        run_contract(envr, c, 'AnsiString.simplify', s, [], {}, CL_Q2)
    return ContractRun(body, CL_Q2, use=('K1', 'B1', 'SL'), nosumm=('AnsiString.set_ansi_str',))


GROUPS.append(Group('Q2', 'simplify(): text and effective style of every character unchanged; afterwards all settings valid and '
                    'parsable', ['C03'], 'B', ['AnsiString.simplify', 'AnsiString.to_str', 'AnsiString.set_ansi_str'], q2_items,
                    q2_task, bounds='as Q1, plus settings holding two parameter groups (two codes; a 256-colour group followed by a code) and invalid settings (zz, 1m, 31;A, @)',
                    assumes=['B1', 'K1', 'SL']))


def q3_task(envr, item):
    shape, kinds, parts, which = item

    def body(c):
        s = _q_string(c, shape, kinds, parts)
        if which == 'twice':
            run_contract(envr, c, 'simplify_twice', None, [s], {}, CL_Q3)
        else:
            run_contract(envr, c, 'render_parse_render', None, [ClassRef('AnsiString'), s], {}, CL_Q3F)
    return ContractRun(body, CL_Q3 if which == 'twice' else CL_Q3F, use=('K1', 'B1', 'SL'), nosumm=('AnsiString.set_ansi_str',))


GROUPS.append(Group('Q3', 'simplify() is idempotent on the rendering and a simplified value renders to a fixed point '
                    '(str(AnsiString(str(s))) == str(s))', ['C03'], 'B',
                    ['AnsiString.simplify', 'AnsiString.to_str', 'AnsiString.set_ansi_str'], q3_items, q3_task,
                    bounds='as Q2 without invalid settings', assumes=['B1', 'K1', 'SL']))
