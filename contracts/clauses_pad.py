"""Contract clauses for padding and format specs (C12: W1-W3; C10-X2 text of the padding methods)."""
from spec import *  # noqa: F401,F403


def pad_parts(r):
    """(left, right): number of fill characters Python's format() puts on each side (extra one on the right for '^')"""
    n = len(r.old_self._s)
    num = r.width - n
    if num <= 0:
        return (0, 0)
    if r.mname == 'ljust':
        return (0, num)
    if r.mname == 'center':
        left = num // 2
        return (left, num - left)
    return (num, 0)


def post_pad_text(r):
    l, rt = pad_parts(r)
    return r.result._s == r.fillchar * l + r.old_self._s + r.fillchar * rt


def pad_k_range(r):
    return (0, len(r.result._s))


def post_pad_view(r):
    """original characters keep their settings; fill characters take those of the adjacent original character (first for
    left fill, last for right fill) when formatting is extended, none otherwise"""
    l, rt = pad_parts(r)
    n = len(r.old_self._s)
    k = r.k
    if k < l:
        if r.extend_formatting and n > 0:
            exp = view_texts(r.old_self, 0)
        else:
            exp = []
    elif k < l + n:
        exp = view_texts(r.old_self, k - l)
    else:
        if r.extend_formatting and n > 0:
            exp = view_texts(r.old_self, n - 1)
        else:
            exp = []
    return view_texts(r.result, k) == exp


def raises_pad(r):
    return len(r.fillchar) != 1


def post_shift_keys(r):
    """every change point moves right by num (the one at index 0 stays when keep_origin), nothing else changes"""
    old = r.old_self._fmts
    new = r.self._fmts
    if len(old) != len(new):
        return False
    for key in old:
        if r.keep_origin and key == 0:
            nk = 0
        else:
            nk = key + r.num
        if nk not in new:
            return False
        if not same_objs(old[key].add, new[nk].add) or not same_objs(old[key].rem, new[nk].rem):
            return False
    return r.self._s == r.old_self._s


def raises_shift(r):
    return r.num < 0
