"""Contract clauses for padding and format specs (C12: W1-W3; C10-X2 text of the padding methods)."""
from spec import *  # noqa: F401,F403


def pad_parts(r):
    """(left, right): number of fill characters Python's format() puts on each side (extra one on the right for '^')"""
    n = len(r.old_self._s)
    num = r.width - n
    if num <= 0:
        return (0, 0)
    if r.mname == 'ljust':
        return (0, num)
    if r.mname == 'center':
        left = num // 2
        return (left, num - left)
    return (num, 0)


def post_pad_text(r):
    l, rt = pad_parts(r)
    return r.result._s == r.fillchar * l + r.old_self._s + r.fillchar * rt


def pad_k_range(r):
    return (0, len(r.result._s))


def post_pad_view(r):
    """original characters keep their settings; fill characters take those of the adjacent original character (first for
    left fill, last for right fill) when formatting is extended, none otherwise"""
    l, rt = pad_parts(r)
    n = len(r.old_self._s)
    k = r.k
    if k < l:
        if r.extend_formatting and n > 0:
            exp = view_texts(r.old_self, 0)
        else:
            exp = []
    elif k < l + n:
        exp = view_texts(r.old_self, k - l)
    else:
        if r.extend_formatting and n > 0:
            exp = view_texts(r.old_self, n - 1)
        else:
            exp = []
    return view_texts(r.result, k) == exp


def raises_pad(r):
    return len(r.fillchar) != 1


def post_shift_keys(r):
    """every change point moves right by num (the one at index 0 stays when keep_origin), nothing else changes"""
    old = r.old_self._fmts
    new = r.self._fmts
    if len(old) != len(new):
        return False
    for key in old:
        if r.keep_origin and key == 0:
            nk = 0
        else:
            nk = key + r.num
        if nk not in new:
            return False
        if not same_objs(old[key].add, new[nk].add) or not same_objs(old[key].rem, new[nk].rem):
            return False
    return r.self._s == r.old_self._s


def raises_shift(r):
    return r.num < 0


# ------------------------------------------------------------------------------------------ W3: format specs
def split_format_spec(spec):
    """(string_format, ansi_format or None): the documented form "[string_format[:ansi_format]]" with
    string_format = .?[+-]?[<>^]?[0-9]* (so that ':' can be a fill character)"""
    g = re_groups('(.?[+-]?[<>^]?[0-9]*)(:.*)?$', spec, 'match')
    if g is None:
        return (spec, None)
    if g[2] is None:
        return (g[1], None)
    return (g[1], g[2][1:])


def is_align(ch):
    return ch == '<' or ch == '>' or ch == '^'


def all_digits(s):
    for ch in s:
        if not ('0' <= ch and ch <= '9'):
            return False
    return True


def parse_string_format(sf):
    """[fill [+|-]] align [width]  |  [width]   ->  (fill, extend, align, width or None), or None when outside the grammar.
    A sign is only recognised after a fill character; a bare width left-justifies with spaces."""
    n = len(sf)
    if all_digits(sf):
        if n == 0:
            return (' ', True, '<', None)
        return (' ', True, '<', int(sf))
    if n >= 3 and (sf[1] == '+' or sf[1] == '-') and is_align(sf[2]) and all_digits(sf[3:]):
        a = 2
    elif n >= 2 and is_align(sf[1]) and all_digits(sf[2:]):
        a = 1
    elif n >= 1 and is_align(sf[0]) and all_digits(sf[1:]):
        a = 0
    else:
        return None
    fill = ' '
    extend = True
    if a >= 1:
        fill = sf[0]
    if a == 2:
        extend = sf[1] == '+'
    w = sf[a + 1:]
    if len(w) == 0:
        return (fill, extend, sf[a], None)
    return (fill, extend, sf[a], int(w))


def format_reference(r):
    """doing the padding and apply_formatting on a copy: the ansi part goes on the whole padded result when formatting is
    extended, and on the original characters only otherwise"""
    sf, ansi = split_format_spec(r.format_spec)
    obj = r.old_self.copy()
    if sf == '':
        if ansi:
            obj.apply_formatting(ansi)
        return obj
    p = parse_string_format(sf)
    if p is None:
        return None
    fill, extend, align, width = p
    if not extend and ansi:
        obj.apply_formatting(ansi)
    if width is not None:
        if align == '<':
            obj.ljust(width, fill, inplace=True, extend_formatting=extend)
        elif align == '>':
            obj.rjust(width, fill, inplace=True, extend_formatting=extend)
        else:
            obj.center(width, fill, inplace=True, extend_formatting=extend)
    if extend and ansi:
        obj.apply_formatting(ansi)
    return obj


def post_format_spec(r):
    ref = format_reference(r)
    if ref is None:
        return False
    return r.result == ref.to_str(None, r.optimize, r.reset_start, r.reset_end)


def raises_format_spec(r):
    """ValueError is allowed exactly when the string format is outside the grammar, or when the ansi part is not a valid
    settings string (the same call on a copy raises it too)"""
    try:
        ref = format_reference(r)
    except ValueError:
        return True
    return ref is None
