"""small engine-level helpers shared by group files"""
from pyvc import sym, abstract as ab
from pyvc.sym import PObj, i_cmp, b_and


def render_setting_code(c, name):
    code = c.named_int('code_' + name, 1, 110)
    c.assume(b_and(i_cmp('!=', code, 38), i_cmp('!=', code, 48), i_cmp('!=', code, 58)))
    return PObj('AnsiSetting', {'_str': sym.mk_rope([('istr', code)])})


def char_text(c, tag, n, lo=None, hi=None, esc_free=False):
    cps = []
    for i in range(n):
        cp = c.named_int('%s%d' % (tag, i), lo, hi) if lo is not None else c.named_int('%s%d' % (tag, i), 0, 0x10FFFF)
        if esc_free:
            c.assume(i_cmp('!=', cp, 27))
        cps.append(cp)
    return sym.s_from_chars(cps)


def hybrid_string(c, tag, n):
    """AnsiString with an abstract well-formed table over a text of n symbolic characters"""
    ab.install(c)
    tb = ab.fresh_table(c, 'tbl_' + tag)
    text = char_text(c, 'c' + tag, n)
    obj = PObj('AnsiString', {'_fmts': tb, '_s': text})
    if not hasattr(c, 'abs_tables'):
        c.abs_tables = []
    c.abs_tables.append(tb)
    c.assume(ab.WFP(tb.term, sym.Z(n)))
    return obj
