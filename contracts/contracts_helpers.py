"""small engine-level helpers shared by group files"""
from pyvc import sym
from pyvc.sym import PObj, i_cmp, b_and


def render_setting_code(c, name):
    code = c.named_int('code_' + name, 1, 110)
    c.assume(b_and(i_cmp('!=', code, 38), i_cmp('!=', code, 48), i_cmp('!=', code, 58)))
    return PObj('AnsiSetting', {'_str': sym.mk_rope([('istr', code)])})
