"""Contract clauses for client-level functions (they use an AnsiString only through other methods):
clip, iteration, +, join, partition, removeprefix/suffix, the str-like queries, the in-place switch and the
AnsiStr wrappers (DESIGN.md 5: G3, A2, A3, X1, X4, Y1, V3, V4, Z1, Z2).  PyV only.

These clauses talk about a value only through len/text, view_texts(v, i), wf_ok(v) and same_value(v, w), which
have abstract twins: the same clause is discharged unbounded on abstract tables and replayed natively."""
from spec import *  # noqa: F401,F403


# ------------------------------------------------------------------------------------------ G3: clip
def clip_bounds(r):
    return py_slice(r.start, r.end, len(r.old_self._s))


def post_clip_text(r):
    lo, hi = clip_bounds(r)
    return r.result._s == r.old_self._s[lo:hi]


def clip_k_range(r):
    return (0, len(r.result._s))


def post_clip_view(r):
    lo, hi = clip_bounds(r)
    return view_texts(r.result, r.k) == view_texts(r.old_self, lo + r.k)


def post_result_wf_ok(r):
    return wf_ok(r.result)


def post_inplace_identity(r):
    """in-place returns the receiver itself; otherwise a different object and the receiver keeps its value"""
    if r.inplace:
        return r.result is r.self
    return r.result is not r.self and same_value(r.self, r.old_self)


# ------------------------------------------------------------------------------------------ G3: iteration
def post_iter_advances(r):
    return r.self.current_idx == r.old_self.current_idx + 1 and r.self.s is r.the_string


def post_iter_text(r):
    j = r.old_self.current_idx + 1
    return r.result._s == r.old_self.s._s[j:j + 1]


def iter_k_range(r):
    return (0, len(r.result._s))


def post_iter_view(r):
    j = r.old_self.current_idx + 1
    return view_texts(r.result, r.k) == view_texts(r.old_self.s, j + r.k)


def post_iter_in_range(r):
    return r.old_self.current_idx + 1 < len(r.old_self.s._s)


def raises_iter_stop(r):
    return r.old_self.current_idx + 1 >= len(r.old_self.s._s)


def post_iter_start(r):
    """__iter__ hands out an iterator positioned before the first character of this very string"""
    return r.result.current_idx == -1 and r.result.s is r.self


# ------------------------------------------------------------------------------------------ A2: + and join
def operand_text_c(v):
    if isinstance(v, str):
        if hasattr(v, '_s'):
            return v._s._s
        return v
    return v._s


def operand_view_texts(v, i):
    if isinstance(v, str):
        if hasattr(v, '_s'):
            return view_texts(v._s, i)
        return []
    return view_texts(v, i)


def post_add_text(r):
    return r.result._s == r.old_self._s + operand_text_c(r.old_value)


def add_k_range(r):
    return (0, len(r.old_self._s) + len(operand_text_c(r.old_value)))


def post_add_view(r):
    n = len(r.old_self._s)
    if r.k < n:
        return view_texts(r.result, r.k) == view_texts(r.old_self, r.k)
    return view_texts(r.result, r.k) == operand_view_texts(r.old_value, r.k - n)


def post_add_fresh_and_frames(r):
    return r.result is not r.self and r.result is not r.value and same_value(r.self, r.old_self)


def post_join_is_left_fold(r):
    """join(x1, ..., xn) equals ((x1 + x2) + ...) + xn"""
    xs = r.old_args
    first = xs[0]
    if isinstance(first, str):
        acc = r.AnsiString(first)
    else:
        acc = first.copy()
    i = 1
    while i < len(xs):
        acc = acc + xs[i]
        i += 1
    return same_value(r.result, acc)


def post_join_text(r):
    t = ''
    for x in r.old_args:
        t = t + operand_text_c(x)
    return r.result._s == t


# ------------------------------------------------------------------------------------------ A3: s[:k] + s[k:]
def split_and_join(s, k):
    return s[:k] + s[k:]


def post_sj_text(r):
    return r.result._s == r.old_s._s


def sj_k_range(r):
    return (0, len(r.old_s._s))


def post_sj_view(r):
    return view_texts(r.result, r.k) == view_texts(r.old_s, r.k)


def post_sj_source_untouched(r):
    return same_value(r.s, r.old_s) and r.result is not r.s


# ------------------------------------------------------------------------------------------ X1: queries agree with str
def post_query_agrees(r):
    """the query returns exactly what the same str method returns on the base text with the same arguments"""
    t = r.old_self._s
    if r.mname == '__len__':
        return r.result == len(t)
    if r.mname == '__contains__':
        return r.result == (operand_text_c(r.margs[0]) in t)
    return r.result == getattr(t, r.mname)(*r.margs)


def raises_like_str(r):
    """an exception is allowed exactly when str raises the same type for the same call"""
    t = r.old_self._s
    try:
        getattr(t, r.mname)(*r.margs)
    except ValueError:
        return r.exc == 'ValueError'
    except TypeError:
        return r.exc == 'TypeError'
    return False


# ------------------------------------------------------------------------------------------ X2 / Y3: case methods
def post_case_text(r):
    return r.result._s == getattr(r.old_self._s, r.mname)()


def case_k_range(r):
    if len(r.result._s) != len(r.old_self._s):
        return (0, 0)
    return (0, len(r.result._s))


def post_case_view(r):
    """when the conversion keeps the length, every position keeps its settings"""
    return view_texts(r.result, r.k) == view_texts(r.old_self, r.k)


# ------------------------------------------------------------------------------------------ X3 / Y1: strip family
def strip_set(r):
    """the characters to strip: the documented default set when chars is None"""
    if r.chars is None:
        return ' \t\n\r\v\f'
    return r.chars


def strip_expected(r):
    t = r.old_self._s
    cs = strip_set(r)
    if r.do_lstrip and r.do_rstrip:
        return t.strip(cs)
    if r.do_lstrip:
        return t.lstrip(cs)
    if r.do_rstrip:
        return t.rstrip(cs)
    return t


def post_strip_text(r):
    return r.result._s == strip_expected(r)


def strip_offset(r):
    t = r.old_self._s
    if r.do_lstrip:
        return len(t) - len(t.lstrip(strip_set(r)))
    return 0


def strip_k_range(r):
    return (0, len(r.result._s))


def post_strip_view(r):
    """every surviving character keeps the settings it had at its true offset in the original"""
    return view_texts(r.result, r.k) == view_texts(r.old_self, strip_offset(r) + r.k)


def post_strip_inplace(r):
    if r.inplace:
        return r.result is r.self
    return same_value(r.self, r.old_self)


# ------------------------------------------------------------------------------------------ X4 / Y1: partition etc.
def part_expected(r):
    """str.partition / str.rpartition of the base text; when the separator is absent both return (s, '', '') here
    (documented deviation for rpartition)"""
    t = r.old_self._s
    if r.right:
        p = t.rpartition(r.sep)
        if t.rfind(r.sep) < 0:
            return (t, '', '')
        return p
    return t.partition(r.sep)


def post_part_texts(r):
    e = part_expected(r)
    return r.result[0]._s == e[0] and r.result[1]._s == e[1] and r.result[2]._s == e[2]


def part_offsets(r):
    t = r.old_self._s
    if r.right:
        i = t.rfind(r.sep)
    else:
        i = t.find(r.sep)
    if i < 0:
        return (0, len(t), len(t))
    return (0, i, i + len(r.sep))


def part_k_range(r):
    return (0, len(r.old_self._s))


def post_part_view(r):
    """each piece reports, character by character, the settings of the original at the piece's true offset"""
    off = part_offsets(r)
    ok = True
    j = 0
    for piece in r.result:
        if r.k < len(piece._s):
            if view_texts(piece, r.k) != view_texts(r.old_self, off[j] + r.k):
                ok = False
        j += 1
    return ok


def post_part_pieces_ok(r):
    for piece in r.result:
        if not wf_ok(piece) or piece is r.self:
            return False
    return same_value(r.self, r.old_self)


def post_rmfix_text(r):
    t = r.old_self._s
    if r.suffix_mode:
        return r.result._s == t.removesuffix(r.fix)
    return r.result._s == t.removeprefix(r.fix)


def rmfix_offset(r):
    t = r.old_self._s
    if r.suffix_mode:
        return 0
    return len(t) - len(t.removeprefix(r.fix))


def rmfix_k_range(r):
    return (0, len(r.result._s))


def post_rmfix_view(r):
    return view_texts(r.result, r.k) == view_texts(r.old_self, rmfix_offset(r) + r.k)


# ------------------------------------------------------------------------------------------ X5 / Y2: split with separator
def split_expected(r):
    t = r.old_self._s
    if r.r:
        return t.rsplit(r.sep, r.maxsplit)
    return t.split(r.sep, r.maxsplit)


def post_split_texts(r):
    e = split_expected(r)
    if len(r.result) != len(e):
        return False
    i = 0
    for piece in r.result:
        if piece._s != e[i]:
            return False
        i += 1
    return True


def split_k_range(r):
    return (0, len(r.old_self._s))


def post_split_view(r):
    """each piece keeps the settings of the original at its true offset (pieces are separated by exactly sep)"""
    e = split_expected(r)
    off = 0
    i = 0
    ok = True
    for piece in r.result:
        if r.k < len(piece._s):
            if view_texts(piece, r.k) != view_texts(r.old_self, off + r.k):
                ok = False
        off = off + len(e[i]) + len(r.sep)
        i += 1
    return ok


# ------------------------------------------------------------------------------------------ H1: format_matching / unformat_matching
def matching_reference(r, remove):
    """the state reached by calling apply_formatting / remove_formatting(fmt, m.start(), m.end()) for the first `count`
    (all if negative) matches Python's re finds in base_str"""
    ref = r.old_self.copy()
    if r.regex:
        pat = r.matchspec
    else:
        pat = re_escape(r.matchspec)
    if r.match_case:
        flags = 0
    else:
        flags = RE_IGNORECASE
    fmt = r.format
    if remove and (len(fmt) == 0 or None in fmt):
        fmt = None
    done = 0
    for m in re_finditer(pat, ref._s, flags):
        if r.count >= 0 and done >= r.count:
            break
        if remove:
            ref.remove_formatting(fmt, m.start(), m.end())
        else:
            ref.apply_formatting(fmt, m.start(), m.end())
        done += 1
    return ref


def post_format_matching(r):
    return eq_value(r.self, matching_reference(r, False))


def post_unformat_matching(r):
    return eq_value(r.self, matching_reference(r, True))


def post_apply_for_match(r):
    ref = r.old_self.copy()
    ref.apply_formatting(r.settings, r.match_object.start(r.group), r.match_object.end(r.group))
    return eq_value(r.self, ref)


# ------------------------------------------------------------------------------------------ X6: replace / expandtabs
def is_plain_str(v):
    return isinstance(v, str) and not hasattr(v, '_s')


def post_replace_text(r):
    return r.result._s == replace_expected(r.old_self._s, r.old, operand_text_c(r.old_new), r.count)


def replace_k_range(r):
    return (0, len(r.result._s))


def post_replace_view(r):
    """characters outside the matches keep their settings; a plain-str replacement takes the settings of the first
    character of the match it replaces; an AnsiString / AnsiStr replacement brings its own settings - for every match"""
    src = replace_source(r.old_self._s, r.old, len(operand_text_c(r.old_new)), r.count, r.k)
    if src[0] == 0:
        return view_texts(r.result, r.k) == view_texts(r.old_self, src[1])
    if is_plain_str(r.old_new):
        if len(r.old) == 0:
            return True
        return view_texts(r.result, r.k) == view_texts(r.old_self, src[1])
    return view_texts(r.result, r.k) == operand_view_texts(r.old_new, src[2])


def post_expandtabs_is_replace(r):
    """expandtabs(tabsize) is replace('\\t', ' ' * tabsize): each tab becomes exactly tabsize spaces (documented deviation)"""
    ref = r.old_self.copy()
    ref = ref.replace('\t', ' ' * r.tabsize, inplace=r.inplace)
    return eq_value(r.result, ref)


# ------------------------------------------------------------------------------------------ X8: splitlines, split(None)
def lines_expected(r):
    return r.old_self._s.splitlines(r.keepends)


def post_pieces_texts(r):
    e = r.expected_pieces
    if len(r.result) != len(e):
        return False
    i = 0
    for piece in r.result:
        if piece._s != e[i]:
            return False
        i += 1
    return True


def pieces_k_range(r):
    return (0, len(r.old_self._s))


def post_pieces_view(r):
    """each piece keeps, character by character, the settings of the original at the piece's true offset"""
    ok = True
    j = 0
    for piece in r.result:
        if r.k < len(piece._s):
            if view_texts(piece, r.k) != view_texts(r.old_self, r.expected_offsets[j] + r.k):
                ok = False
        j += 1
    return ok


# ------------------------------------------------------------------------------------------ Y3: assign_str
def post_assign_text(r):
    return r.self._s == r.s and r.result is None


def assign_k_range(r):
    return (0, len(r.s))


def post_assign_view(r):
    """kept positions keep their settings; added characters continue the last character's settings"""
    n = len(r.old_self._s)
    if r.k < n:
        return view_texts(r.self, r.k) == view_texts(r.old_self, r.k)
    if n == 0:
        return view_texts(r.self, r.k) == []
    return view_texts(r.self, r.k) == view_texts(r.old_self, n - 1)


def post_self_wf_ok(r):
    return wf_ok(r.self)
