"""Obligation groups for the representation-level functions (DESIGN.md 5: SL, G1/G2, N1, F1-F3, M1/M2, A1).

Engine-level file: builds symbolic pre-states and says which clauses (contracts/clauses_core.py) are
obligations of which function.  Bounds per tier are stated in each group."""
from pyvc import sym, shapes, heap
from pyvc.interp import ClassRef
from pyvc.harness import Group, ContractRun, Clause, run_contract
from pyvc.sym import PObj, PList, PDict, PSlice, i_cmp, b_and, b_or

GROUPS = []

# setting codes with a single-code text and a known effect group (no reset, no extended-colour introducers)
SINGLE_CODES = [c for c in list(range(1, 30)) + list(range(30, 38)) + [39] + list(range(40, 48)) + [49, 50, 51, 52,
                53, 54, 55, 59] + list(range(90, 98)) + list(range(100, 108))]


def tier_shapes(tier, quick, thorough):
    a = quick if tier == 'quick' else thorough
    return shapes.table_shapes(*a)


def code_setting(c, name):
    """an AnsiSetting whose text is str(code) for a symbolic known single code"""
    code = c.named_int(name, 1, 107)
    c.assume(b_or(b_and(i_cmp('>=', code, 1), i_cmp('<=', code, 37)), i_cmp('==', code, 39),
                  b_and(i_cmp('>=', code, 40), i_cmp('<=', code, 47)),
                  b_and(i_cmp('>=', code, 49), i_cmp('<=', code, 55)), i_cmp('==', code, 59),
                  b_and(i_cmp('>=', code, 90), i_cmp('<=', code, 97)),
                  b_and(i_cmp('>=', code, 100), i_cmp('<=', code, 107))))
    return PObj('AnsiSetting', {'_str': sym.mk_rope([('istr', code)])})


def opaque_setting(c, name):
    S = c.opaque_text(name, 1)
    S.kind = 'setting'
    return PObj('AnsiSetting', {'_str': sym.s_opaque(S)})


def sym_or_none(c, name, is_none):
    return None if is_none else c.named_int(name)


# ============================================================================================= SL
def sl_items(tier):
    return [[vk, dk] for vk in ('none', 'int') for dk in ('zero', 'len')]


def sl_task(envr, item):
    vk, dk = item

    def body(c):
        T = c.opaque_text('T')
        s = PObj('AnsiString', {'_fmts': PDict(), '_s': sym.s_opaque(T)})
        val = None if vk == 'none' else c.named_int('val')
        default = 0 if dk == 'zero' else T.len
        run_contract(envr, c, 'AnsiString._slice_val_to_idx', s, [val, default], {}, CL_SL, frame=('self',))
    return ContractRun(body, CL_SL, frame=('self',))


CL_SL = [Clause('result-is-python-slice-normalisation', 'post_slice_val')]
GROUPS.append(Group('SL', '_slice_val_to_idx agrees with Python slice normalisation', ['C04', 'C06', 'C07', 'C17', 'C09'],
                    'U', ['AnsiString._slice_val_to_idx'], sl_items, sl_task,
                    bounds='none: any text length, any integer or None'))


# ============================================================================================= G2 (+G1)
CL_G2 = [
    Clause('text', 'post_getitem_text'),
    Clause('int-index-in-range', 'post_getitem_index_in_range'),
    Clause('view', 'post_getitem_view', forall='getitem_k_range'),
    Clause('wf-closed-at-end', 'post_result_wf'),
    Clause('result-separate-from-source', 'post_result_separate_from_self'),
]
RAISES_G2 = {'IndexError': 'raises_getitem_index', 'ValueError': 'raises_getitem_step', 'TypeError': 'raises_getitem_type'}
G2_KINDS = ['slice00', 'slice10', 'slice01', 'slice11', 'int', 'step', 'badtype']


def g2_items(tier):
    shp = tier_shapes(tier, (3, 2, 2, 2), (4, 3, 2, 2))
    out = []
    for sh in shp:
        for kind in G2_KINDS:
            if kind in ('step', 'badtype') and len(sh) > 1:
                continue
            out.append([sh, kind])
    return out


def g2_task(envr, item):
    shape, kind = item

    def body(c):
        s, info = shapes.build_ansistring(c, shape, 'a')
        if kind.startswith('slice'):
            st = c.named_int('st') if kind[5] == '1' else None
            en = c.named_int('en') if kind[6] == '1' else None
            val = PSlice(st, en, None)
        elif kind == 'int':
            val = c.named_int('val')
        elif kind == 'step':
            val = PSlice(None, None, c.named_int('step'))
        else:
            val = 'x'
        run_contract(envr, c, 'AnsiString.__getitem__', s, [val], {}, CL_G2, raises=RAISES_G2, frame=('self',),
                     fresh=True)
    return ContractRun(body, CL_G2, raises=RAISES_G2, frame=('self',), fresh=True, use=('SL',))


GROUPS.append(Group('G2', '__getitem__: selected text and per-character settings, closed at the end, source untouched',
                    ['C04', 'C08', 'C09', 'C05', 'C11'], 'B', ['AnsiString.__getitem__', '_AnsiSettingsIterator.__next__',
                                                               'AnsiString._find_setting_reference'],
                    g2_items, g2_task, bounds='change points N<=3/4, objects<=2/3, markers per list<=2; text length, '
                    'keys, bounds, setting texts symbolic; base text without ESC', assumes=['SL', 'P4']))


# ============================================================================================= N1
CL_N1 = [Clause('is-the-view', 'post_settings_at')]
CL_N1S = [Clause('join-of-texts', 'post_settings_at_str')]


def n1_items(tier):
    return [[sh, f] for sh in tier_shapes(tier, (3, 3, 2, 2), (4, 3, 2, 2)) for f in ('ansi_settings_at', 'settings_at')]


def n1_task(envr, item):
    shape, fn = item
    cl = CL_N1 if fn == 'ansi_settings_at' else CL_N1S

    def body(c):
        s, info = shapes.build_ansistring(c, shape, 'a')
        idx = c.named_int('idx')
        run_contract(envr, c, 'AnsiString.' + fn, s, [idx], {}, cl, frame=('self',), fresh=(fn == 'ansi_settings_at'))
    return ContractRun(body, cl, frame=('self',), fresh=(fn == 'ansi_settings_at'))


GROUPS.append(Group('N1', 'ansi_settings_at / settings_at equal the abstraction function', ['C17', 'C01', 'C06'], 'B',
                    ['AnsiString.ansi_settings_at', 'AnsiString.settings_at', '_AnsiSettingsIterator.__next__',
                     'AnsiString._find_setting_reference'], n1_items, n1_task,
                    bounds='change points N<=3/4, objects<=3; index, keys, text length symbolic'))


# ============================================================================================= F3 (+F1)
CL_F3 = [
    Clause('text-unchanged', 'post_text_unchanged'),
    Clause('noop-on-empty-range-or-settings', 'post_apply_noop'),
    Clause('outside-range-unchanged', 'post_apply_outside', forall='whole_range'),
    Clause('inside-gains-exactly-the-settings', 'post_apply_inside', forall='whole_range'),
    Clause('topmost-false-below-existing', 'post_apply_bottom', forall='whole_range'),
    Clause('topmost-true-wins-until-next-start', 'post_apply_top', forall='whole_range'),
    Clause('wf', 'post_self_wf'),
]
RAISES_NONE = {}


def f3_items(tier):
    shp = tier_shapes(tier, (3, 2, 2, 2), (3, 3, 2, 2))
    out = []
    for sh in shp:
        for nset in (0, 1, 2):
            for bk in ('11', '10', '01', '00'):
                if tier == 'quick' and len(sh) > 2:
                    # quick tier: three change points only with one new setting and both bounds given (or none)
                    if nset != 1 or bk in ('10', '01'):
                        continue
                if nset == 0 and len(sh) > 2:
                    continue
                out.append([sh, nset, bk])
    return out


def f3_task(envr, item):
    shape, nset, bk = item

    def body(c):
        s, info = shapes.build_ansistring(c, shape, 'a')
        settings = PList([opaque_setting(c, 'New%d' % j) for j in range(nset)])
        start = sym_or_none(c, 'start', bk[0] == '0')
        end = sym_or_none(c, 'end', bk[1] == '0')
        if start is None:
            start = 0  # apply_formatting's documented default for start is 0, not None
        topmost = c.named_bool('topmost')
        run_contract(envr, c, 'AnsiString.apply_formatting', s, [settings, start, end, topmost], {}, CL_F3,
                     raises=RAISES_NONE, frame=('settings',))
    return ContractRun(body, CL_F3, raises=RAISES_NONE, frame=('settings',), use=('SL',))


GROUPS.append(Group('F3', 'apply_formatting changes exactly the range with the documented precedence',
                    ['C06', 'C08', 'C09'], 'B',
                    ['AnsiString.apply_formatting', '_AnsiSettingPoint.insert_settings', '_AnsiSettingPoint._scrub_ansi_settings',
                     'AnsiString.ansi_settings_at', 'AnsiSetting.__init__', 'AnsiSetting.__eq__'], f3_items, f3_task,
                    bounds='change points N<=3, objects<=2/3, 0-2 new settings (as AnsiSetting objects), start/end symbolic '
                    'or omitted, topmost symbolic', assumes=['SL', 'F2']))


# ============================================================================================= M2 (+M1)
CL_M2 = [
    Clause('text-unchanged', 'post_text_unchanged'),
    Clause('noop-on-empty-range-or-selection', 'post_remove_noop'),
    Clause('inside-minus-selected', 'post_remove_inside', forall='whole_range'),
    Clause('outside-same-settings-same-precedence', 'post_remove_outside', forall='whole_range'),
    Clause('wf', 'post_self_wf'),
]


def m2_items(tier):
    shp = tier_shapes(tier, (3, 2, 2, 2), (3, 3, 2, 2))
    out = []
    for sh in shp:
        for sel in ('none', 'one', 'two', 'empty'):
            if sel == 'empty' and len(sh) > 2:
                continue
            if tier == 'quick' and sel == 'two' and len(sh) > 2:
                continue
            for bk in ('11', '10', '01'):
                if tier == 'quick' and bk != '11' and len(sh) > 2:
                    continue
                out.append([sh, sel, bk])
    if tier == 'quick':
        # a few three-object tables (nested ranges that all run to the end): one selected setting, both bounds
        for sh in shapes.table_shapes(3, 3, 2, 2, reuse=False, ordered_rem_only=True):
            if shapes.shape_nobj(sh) == 3 and len(sh) == 3:
                out.append([sh, 'one', '11'])
    return out


def m2_task(envr, item):
    shape, sel, bk = item

    def body(c):
        nobj = shapes.shape_nobj(shape)
        sett = {j: code_setting(c, 'code_a%d' % j) for j in range(nobj)}
        s, info = shapes.build_ansistring(c, shape, 'a', settings=sett)
        if sel == 'none':
            settings = None
        else:
            n = {'one': 1, 'two': 2, 'empty': 0}[sel]
            settings = PList([code_setting(c, 'code_sel%d' % j) for j in range(n)])
        start = sym_or_none(c, 'start', bk[0] == '0')
        end = sym_or_none(c, 'end', bk[1] == '0')
        if start is None:
            start = 0
        run_contract(envr, c, 'AnsiString.remove_formatting', s, [settings, start, end], {}, CL_M2, raises=RAISES_NONE,
                     frame=('settings',))
    return ContractRun(body, CL_M2, raises=RAISES_NONE, frame=('settings',), use=('SL',))


GROUPS.append(Group('M2', 'remove_formatting removes exactly the selected settings inside the range',
                    ['C07', 'C08', 'C09'], 'B',
                    ['AnsiString.remove_formatting', '_AnsiSettingsIterator.__next__', 'AnsiString._find_setting_reference',
                     '_AnsiSettingPoint._scrub_ansi_settings', '_AnsiSettingPoint.__bool__', 'AnsiSetting.__eq__'],
                    m2_items, m2_task,
                    bounds='change points N<=3, objects<=2/3; setting texts are str(code) for symbolic known single codes; '
                    'selection None / 0-2 settings; start/end symbolic or omitted', assumes=['SL']))


CL_M1 = [Clause('no-settings-left', 'post_clear')]


def m1_items(tier):
    return [[sh] for sh in tier_shapes(tier, (2, 2, 2, 2), (3, 2, 2, 2))]


def m1_task(envr, item):
    def body(c):
        s, info = shapes.build_ansistring(c, item[0], 'a')
        run_contract(envr, c, 'AnsiString.clear_formatting', s, [], {}, CL_M1)
    return ContractRun(body, CL_M1)


GROUPS.append(Group('M1', 'clear_formatting leaves the text with no settings', ['C07'], 'U',
                    ['AnsiString.clear_formatting'], m1_items, m1_task,
                    bounds='the function is loop free; the table shapes only vary the pre-state'))


# ============================================================================================= A1
CL_A1 = [
    Clause('text-is-concatenation', 'post_iadd_text'),
    Clause('returns-self', 'post_iadd_returns_self'),
    Clause('each-character-keeps-its-operand-settings', 'post_iadd_view', forall='iadd_k_range'),
    Clause('wf-no-bleed-at-seam', 'post_self_wf'),
    Clause('result-shares-no-container-with-right-operand', 'post_iadd_value_separate'),
]
RAISES_A1 = {'TypeError': 'raises_iadd_type'}


def a1_items(tier):
    if tier == 'quick':
        sa = shapes.table_shapes(2, 2, 2, 2)
        sb = shapes.table_shapes(2, 2, 2, 2)
        sa3 = [s for s in shapes.table_shapes(3, 2, 2, 2) if len(s) == 3][:8]
    else:
        sa = shapes.table_shapes(3, 2, 2, 2)
        sb = shapes.table_shapes(3, 2, 2, 2)
        sa3 = []
    out = []
    for a in sa + sa3:
        for b in sb:
            # setting objects are shared between the operands only in the way the API can produce it:
            # the right operand is a copy of the left one (a + a.copy(), same roles for every object);
            # s[:k] + s[k:] is covered by group A3, which runs the real slicing first
            # (objects occurring in several intervals of one operand are not combined with sharing: no API
            # history was found that produces such a pair, and the states it leads to are not claimed)
            for share in ((False, True) if (shapes.shape_nobj(a) and a == b and not shapes.shape_has_reuse(a)) else (False,)):
                out.append([a, b, 'ansistring', share])
        if not shapes.shape_has_reuse(a):
            out.append([a, [], 'self', False])
        out.append([a, [], 'str', False])
        out.append([a, [], 'badtype', False])
    for b in sb:
        out.append([[], b, 'ansistr', False])
    return out


def a1_task(envr, item):
    sa, sb, kind, share = item

    def body(c):
        a, ia = shapes.build_ansistring(c, sa, 'a')
        if kind == 'self':
            value = a
        elif kind == 'str':
            T = c.opaque_text('Tv')
            T.escfree = True
            value = sym.s_opaque(T)
        elif kind == 'badtype':
            value = c.named_int('v')
        else:
            sett = dict(ia['objs']) if share else None
            b, ib = shapes.build_ansistring(c, sb, 'b', settings=sett)
            value = b
            if kind == 'ansistr':
                value = PObj('AnsiStr', {'__payload__': sym.s_opaque(c.opaque_text('Pay')), '_s': b})
        frame = ('value',) if kind not in ('self',) else ()
        run_contract(envr, c, 'AnsiString.__iadd__', a, [value], {}, CL_A1X if kind in ('str', 'ansistr') else CL_A1,
                     raises=RAISES_A1, frame=frame)
    return ContractRun(body, CL_A1X if kind in ('str', 'ansistr') else CL_A1, raises=RAISES_A1,
                       frame=('value',) if kind != 'self' else ())


CL_A1X = [
    Clause('text-is-concatenation', 'post_iadd_text_any'),
    Clause('returns-self', 'post_iadd_returns_self'),
    Clause('each-character-keeps-its-operand-settings', 'post_iadd_view_any', forall='iadd_k_range_any'),
    Clause('wf-no-bleed-at-seam', 'post_self_wf'),
]

GROUPS.append(Group('A1', '__iadd__: text concatenated, each operand keeps its per-character settings, no bleed, operand untouched',
                    ['C05', 'C08', 'C09', 'C11'], 'B',
                    ['AnsiString.__iadd__', 'AnsiString._find_settings_references', '_AnsiSettingPoint.__bool__',
                     '_AnsiSettingPoint.__init__', 'AnsiString.__init__'], a1_items, a1_task,
                    bounds='two operand tables with N<=2(3)/3 change points and <=2 objects each, setting objects shared '
                    'between the operands or not, value is self, str, AnsiStr, wrong type; keys and lengths symbolic',
                    assumes=['P4']))


# ============================================================================================= G2e
# __getitem__ on texts that contain ESC / '[' / 'm': concrete length, symbolic characters over the
# character classes the tokenizer distinguishes.  No "text without ESC" precondition here.
ESC_ALPHABET = (27, 91, 109, 49, 120)  # ESC  [  m  1  x


def g2e_items(tier):
    L = 3 if tier == 'quick' else 5
    out = []
    for n in range(0, L + 1):
        for st in range(0, n + 1):
            for en in range(st, n + 1):
                if tier == 'quick' or n <= 3 or (st, en) in ((0, n), (1, n), (2, n), (0, n - 1)):
                    out.append([n, st, en])
    return out


def g2e_task(envr, item):
    n, st, en = item

    def body(c):
        cps = []
        for i in range(n):
            cp = c.named_int('c%d' % i)
            c.assume(b_or(*[i_cmp('==', cp, a) for a in ESC_ALPHABET]))
            cps.append(cp)
        text = sym.s_from_chars(cps)
        s = PObj('AnsiString', {'_fmts': PDict(), '_s': text})
        if n > 0:
            x = opaque_setting(c, 'Sx')
            s.attrs['_fmts'] = PDict([(0, PObj('_AnsiSettingPoint', {'add': PList([x]), 'rem': PList()})),
                                      (n, PObj('_AnsiSettingPoint', {'add': PList(), 'rem': PList([x])}))])
        run_contract(envr, c, 'AnsiString.__getitem__', s, [PSlice(st, en, None)], {}, CL_G2, raises=RAISES_G2,
                     frame=('self',), fresh=True)
    return ContractRun(body, CL_G2, raises=RAISES_G2, frame=('self',), fresh=True)


GROUPS.append(Group('G2e', '__getitem__ on texts containing ESC, [ and m (no re-interpretation of the selected text)',
                    ['C04'], 'B', ['AnsiString.__getitem__', 'AnsiString.set_ansi_str',
                                   'ParsedAnsiControlSequenceString.__init__'], g2e_items, g2e_task,
                    bounds='text length L<=3/5 over the characters ESC [ m 1 x (symbolic), one setting over the whole '
                    'text, all concrete (start, stop) pairs'))


# ============================================================================================= F2
CL_F2 = [Clause('results-are-new-objects', 'post_scrub_unique'), Clause('two-calls-share-no-object', 'post_scrub_twice_disjoint')]
CL_F2T = [Clause('results-are-new-objects', 'post_scrub_unique'), Clause('two-calls-share-no-object', 'post_scrub_twice_disjoint'),
          Clause('flattened-in-order', 'post_scrub_flattens')]
F2_FORMS = ['one', 'list2', 'nested', 'tuple-nested', 'deep', 'enum-bold', 'enum-ul-red', 'name', 'enum-in-list',
            'name-in-tuple']


def f2_items(tier):
    return [[f] for f in F2_FORMS]


def f2_task(envr, item):
    form = item[0]
    I = envr.interp
    only_settings = form in ('one', 'list2', 'nested', 'tuple-nested', 'deep')

    def body(c):
        s1, s2, s3 = (opaque_setting(c, 'Sa'), opaque_setting(c, 'Sb'), opaque_setting(c, 'Sc'))
        fmt = envr.program.enum_native['AnsiFormat']
        if form == 'one':
            arg = s1
        elif form == 'list2':
            arg = PList([s1, s2])
        elif form == 'nested':
            arg = PList([PList([s1]), s2])
        elif form == 'tuple-nested':
            arg = (PList([s1, (s2,)]), s3)
        elif form == 'deep':
            arg = PList([PList([PList([s1, s2])]), (s3,)])
        elif form == 'enum-bold':
            arg = I.lift_enum(fmt.BOLD)
        elif form == 'enum-ul-red':
            arg = I.lift_enum(fmt.UL_RED)
        elif form == 'name':
            arg = 'bold'
        elif form == 'enum-in-list':
            arg = PList([I.lift_enum(fmt.BG_BLUE), s1])
        else:
            arg = ('ul_red', s1)
        run_contract(envr, c, '_AnsiSettingPoint._scrub_ansi_settings', None, [arg, True], {},
                     CL_F2T if only_settings else CL_F2, frame=('settings',), fields={'SP': ClassRef('_AnsiSettingPoint')})
    return ContractRun(body, CL_F2T if only_settings else CL_F2, frame=('settings',))


GROUPS.append(Group('F2', '_scrub_ansi_settings(make_unique=True) returns only newly created setting objects',
                    ['C06', 'C08', 'C14'], 'B', ['_AnsiSettingPoint._scrub_ansi_settings', '_AnsiSettingPoint._scrub_ansi_format_string',
                                                 'AnsiSetting.__init__', 'AnsiFormat.ansi_settings'], f2_items, f2_task,
                    bounds='argument forms: a setting, lists/tuples nested up to depth 3, AnsiFormat members with one and two '
                    'settings, names, mixtures; setting texts symbolic'))


# ============================================================================================= V5
CL_V5 = [Clause('same-text-and-table', 'post_copy_same_value'), Clause('no-container-shared', 'post_copy_separate')]
CL_V5C = [Clause('copy-equals-source-and-is-separate', 'post_copy_result_same_value')]


def v5_items(tier):
    shp = tier_shapes(tier, (3, 2, 2, 2), (4, 3, 2, 2))
    return [[sh, k] for sh in shp for k in ('init', 'init-ansistr', 'copy')]


def v5_task(envr, item):
    shape, kind = item

    def body(c):
        # every insertion order of the table's keys (a dict keeps the order in which ranges were applied)
        import itertools
        perms = list(itertools.permutations(range(len(shape))))
        order = perms[c.choice(len(perms))] if len(shape) > 1 else None
        src, info = shapes.build_ansistring(c, shape, 'a', key_order=order)
        if kind == 'copy':
            run_contract(envr, c, 'AnsiString.copy', src, [], {}, CL_V5C, frame=('self',), fresh=True)
            return
        arg = src
        if kind == 'init-ansistr':
            arg = PObj('AnsiStr', {'__payload__': sym.s_opaque(c.opaque_text('Pay')), '_s': src})
        new = PObj('AnsiString')
        run_contract(envr, c, 'AnsiString.__init__', new, [arg], {}, CL_V5, frame=('s',))
    if kind == 'copy':
        return ContractRun(body, CL_V5C, frame=('self',), fresh=True)
    return ContractRun(body, CL_V5, frame=('s',))


GROUPS.append(Group('V5', 'copy constructor / copy(): structurally equal value in new containers, source untouched',
                    ['C08', 'C05', 'C13'], 'B', ['AnsiString.__init__', 'AnsiString.copy', '_AnsiSettingPoint.__init__'],
                    v5_items, v5_task, bounds='change points N<=3/4, objects<=2/3'))


# ============================================================================================= N2: find_settings
CL_N2 = [
    Clause('empty-range-or-empty-settings', 'post_find_degenerate'),
    Clause('found-start-has-all-found-end-lacks-one', 'post_find_start_end'),
    Clause('every-position-consistent-with-the-answer', 'post_find_positions', forall='find_k_range'),
]


def n2_items(tier):
    shp = tier_shapes(tier, (3, 2, 2, 2), (3, 3, 2, 2))
    out = []
    for sh in shp:
        for nsel in (0, 1, 2):
            if nsel == 0 and len(sh) > 0:
                continue
            if tier == 'quick' and nsel == 2 and len(sh) > 2:
                continue
            for bk in ('11', '00', '10'):
                if tier == 'quick' and bk == '10' and len(sh) > 2:
                    continue
                for rev in (0, 1):
                    out.append([sh, nsel, bk, rev])
    return out


def n2_task(envr, item):
    shape, nsel, bk, rev = item

    def body(c):
        s, info = shapes.build_ansistring(c, shape, 'a')
        settings = PList([opaque_setting(c, 'Sel%d' % j) for j in range(nsel)])
        start = sym_or_none(c, 'start', bk[0] == '0')
        end = sym_or_none(c, 'end', bk[1] == '0')
        if start is None:
            start = 0
        run_contract(envr, c, 'AnsiString.find_settings', s, [settings, start, end, bool(rev)], {}, CL_N2,
                     frame=('self', 'settings'))
    return ContractRun(body, CL_N2, frame=('self', 'settings'), use=('SL',))


GROUPS.append(Group('N2', 'find_settings: the answer is consistent with the per-position settings over the inclusive normalised range',
                    ['C17'], 'B', ['AnsiString.find_settings', 'AnsiString.ansi_settings_at', '_AnsiSettingsIterator.__next__',
                                   '_AnsiSettingPoint._scrub_ansi_settings'], n2_items, n2_task,
                    bounds='change points N<=3, objects<=2/3, 0-2 searched settings (texts symbolic, may equal table settings), '
                    'start/end symbolic or omitted, both directions', assumes=['SL', 'N1']))
