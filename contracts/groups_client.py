"""Client-level obligation groups (unbounded in the table: abstract AnsiString values, callee contracts as
axioms) - DESIGN.md 5: G3, A2, A3, and the delegation families."""
from pyvc import sym, shapes, heap, abstract as ab
from pyvc.harness import Group, ContractRun, Clause, run_contract
from pyvc.sym import PObj, PList, PDict, PSlice, i_cmp, b_and, b_or
from pyvc.interp import ClassRef

GROUPS = []


def abs_string(c, tag, min_len=0):
    return ab.abstract_ansistring(c, tag, min_len=min_len)


def opt_int(c, name, present):
    return c.named_int(name) if present else None


# ============================================================================================= G3: clip
CL_CLIP = [
    Clause('text', 'post_clip_text'),
    Clause('view', 'post_clip_view', forall='clip_k_range'),
    Clause('wf', 'post_result_wf_ok'),
    Clause('inplace-returns-self-else-receiver-untouched', 'post_inplace_identity'),
]


def clip_items(tier):
    return [[a, b] for a in (0, 1) for b in (0, 1)]


def clip_task(envr, item):
    def body(c):
        s, info = abs_string(c, 'a')
        start = opt_int(c, 'start', item[0])
        end = opt_int(c, 'end', item[1])
        inplace = c.named_bool('inplace')
        run_contract(envr, c, 'AnsiString.clip', s, [start, end, inplace], {}, CL_CLIP)
    return ContractRun(body, CL_CLIP, use=('ABS',))


GROUPS.append(Group('G3', 'clip(a, b) equals s[a:b]; in-place variant returns the receiver', ['C04', 'C08', 'C11'], 'U',
                    ['AnsiString.clip'], clip_items, clip_task,
                    bounds='none: abstract table, any text length and bounds (relative to the contract of __getitem__)',
                    assumes=['G2', 'SL']))

# ============================================================================================= G3: iteration
CL_NEXT = [
    Clause('advances-by-one', 'post_iter_advances'),
    Clause('in-range', 'post_iter_in_range'),
    Clause('yields-the-character-at-that-index', 'post_iter_text'),
    Clause('view', 'post_iter_view', forall='iter_k_range'),
    Clause('wf', 'post_result_wf_ok'),
]
RAISES_NEXT = {'StopIteration': 'raises_iter_stop'}
CL_ITER = [Clause('starts-before-first-character', 'post_iter_start')]


def iter_items(tier):
    return [['next'], ['iter']]


def iter_task(envr, item):
    if item[0] == 'next':
        def body(c):
            s, info = abs_string(c, 'a')
            j = c.named_int('j', -1)
            it = PObj('_AnsiCharIterator', {'current_idx': j, 's': s})
            run_contract(envr, c, '_AnsiCharIterator.__next__', it, [], {}, CL_NEXT, raises=RAISES_NEXT,
                         fields={'the_string': s}, unchanged_on_raise=False)
        return ContractRun(body, CL_NEXT, raises=RAISES_NEXT, use=('ABS',), unchanged_on_raise=False)

    def body2(c):
        s, info = abs_string(c, 'a')
        run_contract(envr, c, 'AnsiString.__iter__', s, [], {}, CL_ITER, frame=('self',))
    return ContractRun(body2, CL_ITER, frame=('self',), use=('ABS',))


GROUPS.append(Group('G3i', 'iterating yields s[0], s[1], ... in order (one step of the iterator; induction over steps)',
                    ['C04'], 'U', ['_AnsiCharIterator.__next__', '_AnsiCharIterator.__init__', 'AnsiString.__iter__',
                                   '_AnsiCharIterator.__iter__'], iter_items, iter_task,
                    bounds='none: any position of the iterator, abstract table', assumes=['G2']))

# ============================================================================================= A2: __add__
CL_ADD = [
    Clause('text-is-concatenation', 'post_add_text'),
    Clause('each-character-keeps-its-operand-settings', 'post_add_view', forall='add_k_range'),
    Clause('wf', 'post_result_wf_ok'),
    Clause('result-is-new-receiver-untouched', 'post_add_fresh_and_frames'),
]
RAISES_ADD = {'TypeError': 'raises_iadd_type'}


def operand(c, kind, tag):
    if kind == 'ansistring':
        return abs_string(c, tag)[0]
    if kind == 'ansistr':
        s = abs_string(c, tag)[0]
        return PObj('AnsiStr', {'__payload__': sym.s_opaque(c.opaque_text('Pay' + tag)), '_s': s})
    if kind == 'str':
        T = c.opaque_text('Tv' + tag)
        T.escfree = True
        return sym.s_opaque(T)
    return c.named_int('bad' + tag)


def add_items(tier):
    return [[k] for k in ('ansistring', 'ansistr', 'str', 'int', 'self')]


def add_task(envr, item):
    kind = item[0]

    def body(c):
        s, info = abs_string(c, 'a')
        value = s if kind == 'self' else operand(c, kind, 'b')
        run_contract(envr, c, 'AnsiString.__add__', s, [value], {}, CL_ADD, raises=RAISES_ADD,
                     frame=('self',) if kind == 'self' else ('self', 'value'), fresh=True)
    return ContractRun(body, CL_ADD, raises=RAISES_ADD, frame=('self',) if kind == 'self' else ('self', 'value'),
                       fresh=True, use=('ABS',))


GROUPS.append(Group('A2', 'a + b = copy then +=: both operands untouched, result new', ['C05', 'C08'], 'U',
                    ['AnsiString.__add__', 'AnsiString.copy'], add_items, add_task,
                    bounds='none (relative to the contracts of __iadd__ and the copy constructor)', assumes=['A1', 'V5']))

# ============================================================================================= A2j: join
CL_JOIN = [
    Clause('equals-left-fold-of-plus', 'post_join_is_left_fold'),
    Clause('text-is-concatenation-of-all', 'post_join_text'),
    Clause('wf', 'post_result_wf_ok'),
]
JOIN_KINDS = ('ansistring', 'str', 'ansistr')


def join_items(tier):
    out = [[[]]]
    maxn = 2 if tier == 'quick' else 3
    def rec(prefix):
        if prefix:
            out.append([list(prefix)])
        if len(prefix) < maxn:
            for k in JOIN_KINDS:
                rec(prefix + [k])
    rec([])
    out.append([['ansistring', 'ansistring', 'ansistring']])
    out.append([['int']])
    out.append([['ansistring', 'int']])
    return out


def join_task(envr, item):
    kinds = item[0]

    def body(c):
        ab.install(c)
        args = [operand(c, k, 'x%d' % i) for i, k in enumerate(kinds)]
        cl = CL_JOIN if args else []
        run_contract(envr, c, 'AnsiString.join', None, args, {}, cl, raises=RAISES_JOIN,
                     fields={'AnsiString': ClassRef('AnsiString')}, fresh=True)
    return ContractRun(body, CL_JOIN if kinds else [], raises=RAISES_JOIN, fresh=True, use=('ABS',))


RAISES_JOIN = {'TypeError': None}
GROUPS.append(Group('A2j', 'join(x1..xn) equals ((x1 + x2) + ...) + xn', ['C05', 'C08'], 'U', ['AnsiString.join'],
                    join_items, join_task, bounds='number of arguments <= 2/3 (each an abstract AnsiString, AnsiStr or str); '
                    'tables and lengths unbounded', assumes=['A1', 'V5']))

# ============================================================================================= A3: s[:k] + s[k:]
CL_SJ = [
    Clause('text', 'post_sj_text'),
    Clause('per-character-settings-as-in-s', 'post_sj_view', forall='sj_k_range'),
    Clause('wf', 'post_result_wf_ok'),
    Clause('source-untouched', 'post_sj_source_untouched'),
]


def sj_items(tier):
    return [['abs']]


def sj_task(envr, item):
    def body(c):
        s, info = abs_string(c, 'a')
        k = c.named_int('k')
        run_contract(envr, c, 'split_and_join', None, [s, k], {}, CL_SJ)
    return ContractRun(body, CL_SJ, use=('ABS',))


GROUPS.append(Group('A3', 's[:k] + s[k:] reports the per-character settings of s, for every k (lemma over the contracts '
                    'of __getitem__ and __iadd__)', ['C05'], 'U', ['AnsiString.__getitem__', 'AnsiString.__add__'],
                    sj_items, sj_task, bounds='none', assumes=['G2', 'A1', 'V5']))


def sjb_items(tier):
    return [[sh] for sh in (shapes.table_shapes(3, 2, 2, 2) if tier == 'quick' else shapes.table_shapes(3, 3, 2, 2))]


def sjb_task(envr, item):
    def body(c):
        s, info = shapes.build_ansistring(c, item[0], 'a')
        k = c.named_int('k')
        run_contract(envr, c, 'split_and_join', None, [s, k], {}, CL_SJ)
    return ContractRun(body, CL_SJ, use=('SL',))


GROUPS.append(Group('A3b', 's[:k] + s[k:] on concrete tables with the real slicing and concatenation inlined (the pieces share '
                    'setting objects, the seam merge is exercised)', ['C05'], 'B',
                    ['AnsiString.__getitem__', 'AnsiString.__iadd__', 'AnsiString.__add__', 'AnsiString.__init__'],
                    sjb_items, sjb_task, bounds='change points N<=3, objects<=2/3; k, keys, length symbolic', assumes=['SL']))


# ============================================================================================= X1: queries
QUERY_METHODS = {
    '__len__': [], '__contains__': ['operand'],
    'count': ['str', 'optint', 'optint'], 'find': ['str', 'optint', 'optint'], 'rfind': ['str', 'optint', 'optint'],
    'index': ['str', 'optint', 'optint'], 'rindex': ['str', 'optint', 'optint'], 'endswith': ['str', 'optint', 'optint'],
    'isalnum': [], 'isalpha': [], 'isascii': [], 'isdecimal': [], 'isdigit': [], 'isidentifier': [], 'islower': [],
    'isnumeric': [], 'isprintable': [], 'isspace': [], 'istitle': [], 'isupper': [],
}
CL_X1 = [Clause('same-result-as-str-on-base-text', 'post_query_agrees')]
RAISES_X1 = {'ValueError': 'raises_like_str', 'TypeError': 'raises_like_str'}


def x1_items(tier):
    return [[m] for m in sorted(QUERY_METHODS)]


def x1_task(envr, item):
    mname = item[0]

    def body(c):
        from pyvc.argkinds import mk_arg
        s, info = abs_string(c, 'a')
        args = [mk_arg(c, k, 'a%d' % i) for i, k in enumerate(QUERY_METHODS[mname])]
        run_contract(envr, c, 'AnsiString.' + mname, s, args, {}, CL_X1, raises=RAISES_X1, frame=('self',),
                     fields={'mname': mname, 'margs': tuple(args)})
    def pool(envr):
        import itertools
        from pyvc.argkinds import native_pool, native_receivers
        pools = [native_pool(envr, k) for k in QUERY_METHODS[mname]]
        for recv in native_receivers(envr):
            for combo in itertools.product(*pools):
                yield ('AnsiString.' + mname, recv, list(combo), {}, {'mname': mname, 'margs': tuple(combo)})
    return ContractRun(body, CL_X1, raises=RAISES_X1, frame=('self',), use=('ABS',), pool=pool)


GROUPS.append(Group('X1', 'len, in, count, find, rfind, index, rindex, endswith, is* return what str returns on the base text',
                    ['C10'], 'U', ['AnsiString.' + m for m in sorted(QUERY_METHODS)], x1_items, x1_task,
                    bounds='none: the str method is an uninterpreted function of the base text and all arguments, so a '
                    'dropped, swapped or altered argument is a counter-model'))

# ============================================================================================= X2/Y3: case methods
CASE_METHODS = ('capitalize', 'casefold', 'lower', 'upper', 'swapcase', 'title')
CL_CASE = [Clause('text-is-str-method-of-base-text', 'post_case_text'),
           Clause('settings-kept-at-every-position', 'post_case_view', forall='case_k_range')]


def case_items(tier):
    return [[m] for m in CASE_METHODS]


def case_task(envr, item):
    mname = item[0]

    def body(c):
        s, info = abs_string(c, 'a')
        run_contract(envr, c, 'AnsiString.' + mname, s, [c.named_bool('inplace')], {}, CL_CASE, fields={'mname': mname})
    def pool(envr):
        from pyvc.argkinds import native_receivers
        for base in native_receivers(envr):
            for inp in (False, True):
                yield ('AnsiString.' + mname, base, [inp], {}, {'mname': mname})
    return ContractRun(body, CL_CASE, use=('ABS',), pool=pool)


GROUPS.append(Group('X2c', 'case conversions: text as str does it; settings kept at every position when the length is kept',
                    ['C10', 'C11'], 'U', ['AnsiString.' + m for m in CASE_METHODS], case_items, case_task,
                    bounds='none (str case mapping uninterpreted: the library returns what str returns)'))


# ============================================================================================= X3 / Y1: _strip
from pyvc import loopcut  # noqa: E402
from pyvc import builtins_model as bm  # noqa: E402
import z3  # noqa: E402


def _member(interp, fr, ch):
    r = bm.v_in(interp, ch, fr.env['chars'])
    if isinstance(r, sym.Approx):
        raise sym.Unsupported('membership undecidable')
    return r


def inv_strip_left(interp, fr, i, text):
    """after i iterations: lcount == i and the first i characters are all in `chars`"""
    c = sym.ctx()
    return b_and(i_cmp('==', fr.env['lcount'], i),
                 loopcut.forall_lt(c, i, lambda j: sym.Z(_member(interp, fr, text['char'](j)))
                                   if not isinstance(_member(interp, fr, text['char'](j)), bool)
                                   else _member(interp, fr, text['char'](j))))


def inv_strip_right(interp, fr, i, text):
    """after i iterations: rcount == -i and the last i characters (positions hi-i .. hi-1) are all in `chars`"""
    c = sym.ctx()
    return b_and(i_cmp('==', fr.env['rcount'], sym.i_neg(i)),
                 loopcut.forall_range(c, sym.i_sub(text['hi'], i), text['hi'],
                                      lambda p: _member(interp, fr, text['char_at'](p))))


STRIP_CUTS = {
    ('AnsiString._strip', 0): loopcut.ForTextCut('strip-left', ['lcount'], inv_strip_left),
    ('AnsiString._strip', 1): loopcut.ForTextCut('strip-right', ['rcount'], inv_strip_right),
}
CL_STRIP = [
    Clause('text-is-str-strip-of-base-text', 'post_strip_text'),
    Clause('characters-keep-settings-at-true-offset', 'post_strip_view', forall='strip_k_range'),
    Clause('wf', 'post_result_wf_ok'),
    Clause('inplace-returns-self-else-receiver-untouched', 'post_strip_inplace'),
]


def strip_items(tier):
    return [[cs, l, r] for cs in ('none', 'opaque', 'lit') for l in (0, 1) for r in (0, 1)]


def strip_task(envr, item):
    cs, dl, dr = item

    def body(c):
        s, info = abs_string(c, 'a')
        if cs == 'none':
            chars = None
        elif cs == 'lit':
            chars = 'xy'
        else:
            chars = sym.s_opaque(c.opaque_text('Chars'))
        run_contract(envr, c, 'AnsiString._strip', s, [chars, c.named_bool('inplace'), bool(dl), bool(dr)], {}, CL_STRIP)

    def pool(envr):
        from pyvc.argkinds import native_receivers
        for base in native_receivers(envr):
            for ch in (None, ' ', 'a', 'ab', ' \t', 'aX '):
                for inp in (False, True):
                    yield ('AnsiString._strip', base, [ch, inp, bool(dl), bool(dr)], {}, {})
    return ContractRun(body, CL_STRIP, use=('ABS',), cuts=STRIP_CUTS, pool=pool)


GROUPS.append(Group('X3', '_strip (strip/lstrip/rstrip): text equals str.strip of the base text for the given or default set; '
                    'surviving characters keep their settings', ['C10', 'C11'], 'U', ['AnsiString._strip', 'AnsiString.clip'],
                    strip_items, strip_task,
                    bounds='none: any text length (loops cut by the invariants "the first/last i characters are in the set"), '
                    'abstract table', assumes=['G2', 'SL']))


# ============================================================================================= X4 / Y1: partition, removeprefix/suffix
CL_PART = [
    Clause('piece-texts-as-str', 'post_part_texts'),
    Clause('pieces-keep-settings-at-true-offset', 'post_part_view', forall='part_k_range'),
    Clause('pieces-wf-new-objects-receiver-untouched', 'post_part_pieces_ok'),
]
RAISES_PART = {'ValueError': 'raises_like_str_part'}


def part_items(tier):
    return [['partition'], ['rpartition']]


def part_task(envr, item):
    mname = item[0]

    def body(c):
        s, info = abs_string(c, 'a')
        T = c.opaque_text('Sep', 1)
        T.escfree = True      # a separator with ESC would be parsed if an implementation hands it to the constructor
        sep = sym.s_opaque(T)
        run_contract(envr, c, 'AnsiString.' + mname, s, [sep], {}, CL_PART, fields={'right': mname == 'rpartition'})

    def pool(envr):
        from pyvc.argkinds import native_receivers
        for base in native_receivers(envr):
            for sep in ('a', 'b', 'ab', ' ', 'X', 'bb', 'zz', 'Xb', 'aX', 'l2'):
                yield ('AnsiString.' + mname, base, [sep], {}, {'right': mname == 'rpartition'})
    return ContractRun(body, CL_PART, use=('ABS',), pool=pool)


GROUPS.append(Group('X4p', 'partition / rpartition: piece texts as str (both (s, "", "") when the separator is absent); pieces keep '
                    'their settings', ['C10', 'C11'], 'U', ['AnsiString.partition', 'AnsiString.rpartition'], part_items,
                    part_task, bounds='none: abstract table, opaque text and non-empty separator; str.find/rfind uninterpreted '
                    'with the assumed contract "a hit is a position where the text reads the pattern"', assumes=['G2', 'SL', 'V5']))

CL_RMFIX = [
    Clause('text-as-str', 'post_rmfix_text'),
    Clause('characters-keep-settings-at-true-offset', 'post_rmfix_view', forall='rmfix_k_range'),
    Clause('wf', 'post_result_wf_ok'),
    Clause('inplace-returns-self-else-receiver-untouched', 'post_strip_inplace'),
]


def rmfix_items(tier):
    return [['removeprefix'], ['removesuffix']]


def rmfix_task(envr, item):
    mname = item[0]

    def body(c):
        s, info = abs_string(c, 'a')
        fix = sym.s_opaque(c.opaque_text('Fix'))
        run_contract(envr, c, 'AnsiString.' + mname, s, [fix, c.named_bool('inplace')], {}, CL_RMFIX,
                     fields={'suffix_mode': mname == 'removesuffix', 'fix': fix})

    def pool(envr):
        from pyvc.argkinds import native_receivers
        for base in native_receivers(envr):
            for fix in ('', 'a', 'ab', ' ', 'bb', 'Xa ', 'x'):
                for inp in (False, True):
                    yield ('AnsiString.' + mname, base, [fix, inp], {}, {'suffix_mode': mname == 'removesuffix', 'fix': fix})
    return ContractRun(body, CL_RMFIX, use=('ABS',), pool=pool)


GROUPS.append(Group('X4r', 'removeprefix / removesuffix as str (including the empty affix); remaining characters keep their settings',
                    ['C10', 'C11'], 'U', ['AnsiString.removeprefix', 'AnsiString.removesuffix', 'AnsiString.clip'],
                    rmfix_items, rmfix_task, bounds='none: abstract table, opaque text and affix (startswith/endswith '
                    'uninterpreted)', assumes=['G2', 'SL', 'V5']))


# ============================================================================================= X5 / Y2: split with a separator
CL_SPLIT = [
    Clause('piece-texts-as-str', 'post_split_texts'),
    Clause('pieces-keep-settings-at-true-offset', 'post_split_view', forall='split_k_range'),
    Clause('pieces-wf-new-objects-receiver-untouched', 'post_part_pieces_ok'),
]


def split_items(tier):
    return [[r, m] for r in (0, 1) for m in ('all', 'sym')]


def split_task(envr, item):
    right, mk = item

    def body(c):
        s, info = abs_string(c, 'a')
        sep = sym.s_opaque(c.opaque_text('Sep', 1))
        maxsplit = -1 if mk == 'all' else c.named_int('maxsplit')
        # through the public wrapper (split / rsplit), whose body hands sep, maxsplit and the direction to _split
        run_contract(envr, c, 'AnsiString.rsplit' if right else 'AnsiString.split', s, [sep, maxsplit], {}, CL_SPLIT,
                     fields={'r': bool(right)})

    def pool(envr):
        from pyvc.argkinds import native_receivers
        for base in native_receivers(envr):
            for sep in ('a', 'b', 'ab', ' ', 'X', 'bb', 'Xa'):
                for ms in (-1, 0, 1, 2):
                    yield ('AnsiString.rsplit' if right else 'AnsiString.split', base, [sep, ms], {}, {'r': bool(right)})
    return ContractRun(body, CL_SPLIT, use=('ABS',), pool=pool)


GROUPS.append(Group('X5', '_split (split/rsplit) with an explicit separator: piece texts as str, pieces keep their settings at '
                    'their true offsets', ['C10', 'C11'], 'U', ['AnsiString._split', 'AnsiString.split', 'AnsiString.rsplit'], split_items, split_task,
                    bounds='results of at most 3 pieces (bounded); text length, separator, maxsplit and table unbounded; '
                    'str.split/find under assumed contracts', assumes=['G2', 'SL']))


# ============================================================================================= H1: format_matching / unformat_matching
CL_FM = [Clause('same-state-as-apply_formatting-over-re-matches', 'post_format_matching'), Clause('text-unchanged', 'post_text_unchanged')]
CL_UM = [Clause('same-state-as-remove_formatting-over-re-matches', 'post_unformat_matching'), Clause('text-unchanged', 'post_text_unchanged')]
CL_AM = [Clause('one-apply_formatting-over-the-match-group', 'post_apply_for_match'), Clause('text-unchanged', 'post_text_unchanged')]


def h1_items(tier):
    out = []
    for fn in ('format_matching', 'unformat_matching'):
        for nf in (0, 1, 2):
            out.append([fn, nf])
        if fn == 'unformat_matching':
            out.append([fn, 'none'])
            out.append([fn, 'set+none'])
            out.append([fn, 'none+set'])
    out.append(['apply_formatting_for_match', 1])
    return out


def h1_task(envr, item):
    fn, nf = item

    def body(c):
        from pyvc.argkinds import mk_arg
        s, info = abs_string(c, 'a')
        if fn == 'apply_formatting_for_match':
            m = PObj('__match__', {'_start': c.named_int('ms', 0), '_end': c.named_int('me', 0)})
            run_contract(envr, c, 'AnsiString.' + fn, s, [mk_arg(c, 'settings', 'f0'), m, 0], {}, CL_AM)
            return
        spec = sym.s_opaque(c.opaque_text('Spec'))
        if nf == 'none':
            fmts = [None]
        elif nf == 'set+none':
            fmts = [mk_arg(c, 'settings', 'f0'), None]     # None anywhere among the formats means: all settings
        elif nf == 'none+set':
            fmts = [None, mk_arg(c, 'settings', 'f0')]
        else:
            fmts = [mk_arg(c, 'settings', 'f%d' % i) for i in range(nf)]
        kw = {'regex': c.named_bool('regex'), 'match_case': c.named_bool('match_case'), 'count': c.named_int('count')}
        run_contract(envr, c, 'AnsiString.' + fn, s, [spec] + fmts, kw, CL_FM if fn == 'format_matching' else CL_UM)

    def pool(envr):
        import itertools
        from pyvc.argkinds import native_receivers
        A = envr.program.modules['ansi_format'].native.AnsiSetting
        if fn == 'apply_formatting_for_match':
            return
        for base in native_receivers(envr):
            for spec in ('a', 'b', 'ab', 'A', ' ', 'X', '.', 'a*', 'B', 'aa', 'ss', 'tax'):
                for regex in (False, True):
                    for mc in (False, True):
                        for cnt in (-1, 0, 1, 2):
                            if nf == 'none':
                                fm = [None]
                            elif nf == 'set+none':
                                fm = [[A('31')], None]
                            elif nf == 'none+set':
                                fm = [None, [A('31')]]
                            else:
                                fm = [[A('4%d' % i)] for i in range(nf)]
                            yield ('AnsiString.' + fn, base, [spec] + fm, {'regex': regex, 'match_case': mc, 'count': cnt}, {})
    cl = CL_AM if fn == 'apply_formatting_for_match' else (CL_FM if fn == 'format_matching' else CL_UM)
    return ContractRun(body, cl, use=('ABS',), pool=pool)


GROUPS.append(Group('H1', 'format_matching / unformat_matching leave the state of apply / remove_formatting over the first count matches '
                    'Python re finds (pattern escaped unless regex, case-insensitive unless match_case)', ['C16'], 'U',
                    ['AnsiString.format_matching', 'AnsiString.unformat_matching', 'AnsiString.apply_formatting_for_match'],
                    h1_items, h1_task, bounds='re.finditer results of at most 3 matches (bounded); text, pattern, settings, count, flags '
                    'and table unbounded; re.finditer / re.escape uninterpreted functions of all their arguments',
                    assumes=['F3', 'M2', 'SL', 'V5']))


# ============================================================================================= X6: replace
# Hybrid mode: the receiver's table is abstract (any well-formed table: slicing, concatenation, ansi_settings_at and the
# constructor act through their contracts), the texts have a concrete length and symbolic characters, so the search loop
# of replace() is unrolled over all texts up to that length.
CL_REPLACE = [
    Clause('text-as-str-replace', 'post_replace_text'),
    Clause('unmatched-keep-settings-replacement-settings-per-match', 'post_replace_view', forall='replace_k_range'),
    Clause('wf', 'post_result_wf_ok'),
    Clause('inplace-returns-self-else-new-and-receiver-untouched', 'post_inplace_identity'),
]
RAISES_REPLACE = {'TypeError': None}


from contracts_helpers import char_text, hybrid_string  # noqa: E402


def x6_items(tier):
    L = 4 if tier == 'quick' else 5
    out = []
    for n in range(0, L + 1):
        for lo in (1, 2):
            if lo > max(n, 1):
                continue
            for kind in ('str', 'ansistring', 'ansistr'):
                for ln in (0, 1, 2):
                    out.append([n, lo, kind, ln])
    for n in range(0, 4):
        for kind in ('str', 'ansistring'):
            for ln in (0, 1, 2):
                out.append([n, 0, kind, ln])      # the empty pattern
    return out


def x6_task(envr, item):
    n, lo, kind, ln = item

    def body(c):
        s = hybrid_string(c, 'a', n)
        old = char_text(c, 'o', lo)
        if kind == 'str':
            new = char_text(c, 'n', ln, esc_free=True)
        elif kind == 'ansistring':
            new = hybrid_string(c, 'b', ln)
        else:
            new = PObj('AnsiStr', {'__payload__': sym.s_opaque(c.opaque_text('Payb')), '_s': hybrid_string(c, 'b', ln)})
        count = c.named_int('count', -1, n + 2)
        inplace = c.named_bool('inplace')
        run_contract(envr, c, 'AnsiString.replace', s, [old, new, count, inplace], {}, CL_REPLACE, raises=RAISES_REPLACE,
                     frame=('new',))
    return ContractRun(body, CL_REPLACE, raises=RAISES_REPLACE, frame=('new',), use=('ABS',), max_steps=30000)


GROUPS.append(Group('X6', 'replace: text as str.replace (all counts, overlapping and empty patterns); characters outside the matches '
                    'keep their settings, a plain-str replacement takes the settings of the first character of each match, an '
                    'AnsiString / AnsiStr replacement its own - for every match; replacement value untouched', ['C10', 'C11', 'C09'],
                    'B', ['AnsiString.replace'], x6_items, x6_task,
                    bounds='text length L<=4/5, pattern length 0-2, replacement length 0-2, all characters symbolic; count symbolic; '
                    'tables abstract (unbounded): slicing, +, ansi_settings_at and the constructor by contract',
                    assumes=['G2', 'A1', 'A2', 'N1', 'F2', 'F3', 'V5']))


def x6u_items(tier):
    return [[kind, cnt] for kind in ('str', 'ansistring', 'ansistr') for cnt in (0, 1)]


def x6u_task(envr, item):
    kind, cnt = item

    def body(c):
        s, info = abs_string(c, 'a')
        old = sym.s_opaque(c.opaque_text('Old', 1))
        new = operand(c, kind, 'b')
        inplace = c.named_bool('inplace')
        run_contract(envr, c, 'AnsiString.replace', s, [old, new, cnt, inplace], {}, CL_REPLACE, raises=RAISES_REPLACE,
                     frame=('new',))
    return ContractRun(body, CL_REPLACE, raises=RAISES_REPLACE, frame=('new',), use=('ABS',))


GROUPS.append(Group('X6u', 'replace with count 0 or 1 on texts, patterns and replacements of any length (the first occurrence is '
                    'replaced; everything else keeps its settings)', ['C10', 'C11'], 'U', ['AnsiString.replace'], x6u_items,
                    x6u_task, bounds='count 0 or 1 (one loop iteration); text, pattern, replacement and table unbounded; str.find '
                    'under its assumed contract', assumes=['G2', 'A1', 'A2', 'N1', 'F2', 'F3', 'V5']))


# ============================================================================================= X7: expandtabs
CL_X7 = [Clause('expandtabs-is-replace-tab-by-tabsize-spaces', 'post_expandtabs_is_replace'),
         Clause('inplace-returns-self-else-new-and-receiver-untouched', 'post_inplace_identity')]


def x7_items(tier):
    return [['default'], ['sym']]


def x7_task(envr, item):
    def body(c):
        s, info = abs_string(c, 'a')
        inplace = c.named_bool('inplace')
        if item[0] == 'default':
            run_contract(envr, c, 'AnsiString.expandtabs', s, [], {'inplace': inplace}, CL_X7, fields={'tabsize': 8, 'inplace': inplace})
        else:
            ts = c.named_int('tabsize')
            run_contract(envr, c, 'AnsiString.expandtabs', s, [ts, inplace], {}, CL_X7)

    def pool(envr):
        from pyvc.argkinds import native_receivers
        for base in native_receivers(envr):
            for ts in (-1, 0, 1, 2, 8):
                for ip in (False, True):
                    if item[0] == 'default':
                        yield ('AnsiString.expandtabs', base, [], {'inplace': ip}, {'tabsize': 8, 'inplace': ip})
                    else:
                        yield ('AnsiString.expandtabs', base, [ts, ip], {}, {})
    return ContractRun(body, CL_X7, use=('GENERIC',), pool=pool)


GROUPS.append(Group('X7', 'expandtabs(tabsize) is exactly replace("\\t", " " * tabsize) with the same in-place switch (each tab '
                    'becomes tabsize spaces: the documented deviation from str)', ['C10', 'C11', 'C08'], 'U', ['AnsiString.expandtabs'],
                    x7_items, x7_task, bounds='none: replace is an uninterpreted state transformer here (its own contract is X6; '
                    'its in-place switch is V3)', assumes=['X6', 'V3']))


# ============================================================================================= X8: splitlines, split(None)
CL_PIECES = [
    Clause('piece-texts-as-str', 'post_pieces_texts'),
    Clause('pieces-keep-settings-at-true-offset', 'post_pieces_view', forall='pieces_k_range'),
    Clause('pieces-wf-new-objects-receiver-untouched', 'post_part_pieces_ok'),
]


def x8_items(tier):
    L = 4 if tier == 'quick' else 5
    out = []
    for n in range(0, L + 1):
        out.append(['splitlines', n, 0])
        out.append(['splitlines', n, 1])
        for r in (0, 1):
            for ms in (-1, 0, 1, 2):
                out.append(['split', n, [r, ms]])
    return out


def x8_task(envr, item):
    which, n, par = item
    I = envr.interp

    def body(c):
        s = hybrid_string(c, 'a', n)
        t = s.attrs['_s']
        c.in_spec += 1
        if which == 'splitlines':
            keep = bool(par)
            exp = I.bm.str_method(I, t, 'splitlines', [keep], {})
            offs = I.call_name('splitlines_offsets', t)
        else:
            right, ms = par
            exp = I.bm.str_method(I, t, 'rsplit' if right else 'split', [None, ms], {})
            offs = I.call_name('ws_split_offsets', t, exp, bool(right))
        c.in_spec -= 1
        fields = {'expected_pieces': exp, 'expected_offsets': offs}
        if which == 'splitlines':
            run_contract(envr, c, 'AnsiString.splitlines', s, [keep], {}, CL_PIECES, fields=fields)
        else:
            if ms == -1 and not right:
                run_contract(envr, c, 'AnsiString.split', s, [], {}, CL_PIECES, fields=fields)    # all defaults
            else:
                run_contract(envr, c, 'AnsiString.rsplit' if right else 'AnsiString.split', s, [None, ms], {}, CL_PIECES,
                             fields=fields)
    return ContractRun(body, CL_PIECES, use=('ABS',))


GROUPS.append(Group('X8', 'splitlines(keepends) and split / rsplit on whitespace: piece texts as str returns them, every piece keeps '
                    'the settings of the original at its true offset (computed from the line / whitespace structure, not by '
                    'searching)', ['C10', 'C11'], 'B', ['AnsiString.splitlines', 'AnsiString._split', 'AnsiString.split', 'AnsiString.rsplit'], x8_items, x8_task,
                    bounds='text length L<=4/5 with symbolic characters (all of Unicode: every line-break and whitespace class); '
                    'maxsplit -1..2; tables abstract (unbounded)', assumes=['G2', 'SL']))


# ============================================================================================= Y3: assign_str
CL_ASSIGN = [
    Clause('text-replaced', 'post_assign_text'),
    Clause('kept-positions-keep-settings-added-continue-the-last', 'post_assign_view', forall='assign_k_range'),
    Clause('wf', 'post_self_wf_ok'),
]


def y3_items(tier):
    shp = shapes.table_shapes(3, 2, 2, 2) if tier == 'quick' else shapes.table_shapes(4, 3, 2, 2)
    return [[sh] for sh in shp] + [[[]]]


def y3_task(envr, item):
    def body(c):
        s, info = shapes.build_ansistring(c, item[0], 'a')
        new = sym.s_opaque(c.opaque_text('New'))
        run_contract(envr, c, 'AnsiString.assign_str', s, [new], {}, CL_ASSIGN, arg_names=['s'])
    return ContractRun(body, CL_ASSIGN, names=['s'])


GROUPS.append(Group('Y3', 'assign_str: the text is replaced; positions that remain keep their settings, added characters continue '
                    'the settings of the last character, settings of removed characters are dropped; the table stays well formed',
                    ['C11', 'C09'], 'B', ['AnsiString.assign_str', 'AnsiString.clip'], y3_items, y3_task,
                    bounds='change points N<=3/4, objects <=2/3; old and new length, keys and texts symbolic', assumes=['SL']))
