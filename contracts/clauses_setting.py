"""Contract clauses for AnsiSetting (C15: K1, K2) and the formatting-wide flags (K3)."""
from spec import *  # noqa: F401,F403


def post_valid_is_spec(r):
    return r.result == valid_spec(r.old_self._str)


def post_valid_cached(r):
    """the answer is stored and is the stored answer from then on"""
    return r.self._valid == r.result and r.self._str == r.old_self._str


def post_parsable_is_spec(r):
    return r.result == parsable_spec(r.old_self._str)


def post_parsable_cached(r):
    return r.self._parsable == r.result and r.self._str == r.old_self._str


def post_cached_value_returned(r):
    return r.result == r.cached


def fmt_flags_expected(v, which):
    for key in v._fmts:
        for s in v._fmts[key].add:
            if which == 'valid':
                if not valid_spec(str(s)):
                    return False
            else:
                if not parsable_spec(str(s)):
                    return False
    return True


def post_is_formatting_valid(r):
    return r.result == fmt_flags_expected(r.old_self, 'valid')


def post_is_formatting_parsable(r):
    return r.result == fmt_flags_expected(r.old_self, 'parsable')
