"""Contract clauses for AnsiSetting (C15: K1, K2) and the formatting-wide flags (K3)."""
from spec import *  # noqa: F401,F403


def post_valid_is_spec(r):
    return r.result == valid_spec(r.old_self._str)


def post_valid_cached(r):
    """the answer is stored and is the stored answer from then on"""
    return r.self._valid == r.result and r.self._str == r.old_self._str


def post_parsable_is_spec(r):
    return r.result == parsable_spec(r.old_self._str)


def post_parsable_cached(r):
    return r.self._parsable == r.result and r.self._str == r.old_self._str


def post_cached_value_returned(r):
    return r.result == r.cached


def fmt_flags_expected(v, which):
    for key in v._fmts:
        for s in v._fmts[key].add:
            if which == 'valid':
                if not valid_spec(str(s)):
                    return False
            else:
                if not parsable_spec(str(s)):
                    return False
    return True


def post_is_formatting_valid(r):
    return r.result == fmt_flags_expected(r.old_self, 'valid')


def post_is_formatting_parsable(r):
    return r.result == fmt_flags_expected(r.old_self, 'parsable')


# ------------------------------------------------------------------------------------------ S1: rgb / color256 helpers
def clamp255(x):
    if x < 0:
        return 0
    if x > 255:
        return 255
    return x


def comp_intro(component_name):
    if component_name == 'BACKGROUND':
        return 48
    if component_name == 'UNDERLINE' or component_name == 'DOUBLE_UNDERLINE':
        return 58
    return 38


def post_rgb_settings(r):
    """three components are clamped to 0..255; a single 24-bit value is split into r, g, b; the component selects
    38 / 48 / 58 and the underline forms also switch (double) underline on"""
    if r.g is None:
        x = r.r_or_rgb
        rr = (x // 65536) % 256
        gg = (x // 256) % 256
        bb = x % 256
    else:
        rr = clamp255(r.r_or_rgb)
        gg = clamp255(r.g)
        bb = clamp255(r.b)
    exp = []
    name = r.component.name
    if name == 'UNDERLINE':
        exp.append('4')
    if name == 'DOUBLE_UNDERLINE':
        exp.append('21')
    exp.append(';'.join([str(comp_intro(name)), '2', str(rr), str(gg), str(bb)]))
    return texts(r.result) == exp


def raises_rgb(r):
    if r.r_or_rgb is None:
        return True
    return (r.g is None) != (r.b is None)


def post_color256_settings(r):
    exp = []
    name = r.component.name
    if name == 'UNDERLINE':
        exp.append('4')
    if name == 'DOUBLE_UNDERLINE':
        exp.append('21')
    exp.append(';'.join([str(comp_intro(name)), '5', str(r.val)]))
    return texts(r.result) == exp


def post_result_settings_parsable(r):
    """results for in-range arguments are valid and parsable"""
    for s in r.result:
        if not parsable_spec(str(s)):
            return False
    return True


def post_str_is_to_str(r):
    return r.result == r.old_self.to_str()


def post_format_is_to_str(r):
    return r.result == r.old_self.to_str(r.spec)


# ------------------------------------------------------------------------------------------ C14: spellings
def post_scrub_same_as_reference(r):
    """this spelling yields the same settings (texts, in order) as the reference spelling"""
    return texts(r.result) == r.expected


def rgb_expected(prefix, rr, gg, bb):
    exp = []
    if prefix == 'ul_':
        exp.append('4')
    if prefix == 'dul_':
        exp.append('21')
    intro = '38'
    if prefix == 'bg_':
        intro = '48'
    if prefix == 'ul_' or prefix == 'dul_':
        intro = '58'
    exp.append(';'.join([intro, '2', str(clamp255(rr)), str(clamp255(gg)), str(clamp255(bb))]))
    return exp


def rgb24_expected(prefix, x):
    exp = []
    if prefix == 'ul_':
        exp.append('4')
    if prefix == 'dul_':
        exp.append('21')
    intro = '38'
    if prefix == 'bg_':
        intro = '48'
    if prefix == 'ul_' or prefix == 'dul_':
        intro = '58'
    exp.append(';'.join([intro, '2', str((x // 65536) % 256), str((x // 256) % 256), str(x % 256)]))
    return exp


def c256_expected(prefix, n):
    exp = []
    if prefix == 'ul_':
        exp.append('4')
    if prefix == 'dul_':
        exp.append('21')
    intro = '38'
    if prefix == 'bg_':
        intro = '48'
    if prefix == 'ul_' or prefix == 'dul_':
        intro = '58'
    exp.append(';'.join([intro, '5', str(n)]))
    return exp


def post_parse_rgb_string(r):
    if r.expected is None:
        return r.result is None
    return r.result is not None and texts(r.result) == r.expected


# ------------------------------------------------------------------------------------------ S2 / S6: rejection, mixtures
def post_never_returns(r):
    """the call is documented to be rejected: reaching a normal return is the violation"""
    return False


def raises_only_expected(r):
    return r.exc == r.expected_exc


def post_scrub_concat(r):
    """[a, b] (and 'a;b' for two string directives) yields the settings of a followed by the settings of b"""
    return texts(r.result) == r.expected


def post_scrub_unique_mix(r):
    """make_unique=True: no setting object of the result is one of the objects handed in"""
    if not r.make_unique:
        return True
    for s in r.result:
        for o in r.given_objects:
            if s is o:
                return False
    return True
