"""Padding and format-spec groups (DESIGN.md 5, C12)."""
from pyvc import sym, shapes, heap
from pyvc.harness import Group, ContractRun, Clause, run_contract
from pyvc.sym import PObj, PList, PDict, i_cmp, b_and, b_or

GROUPS = []

# ============================================================================================= W1: _shift_settings_idx
CL_W1 = [Clause('keys-shifted-by-num-origin-kept-on-request', 'post_shift_keys')]
RAISES_W1 = {'ValueError': 'raises_shift'}


def w1_items(tier):
    return [[sh] for sh in (shapes.table_shapes(3, 2, 2, 2) if tier == 'quick' else shapes.table_shapes(4, 3, 2, 2))]


def w1_task(envr, item):
    def body(c):
        s, info = shapes.build_ansistring(c, item[0], 'a')
        run_contract(envr, c, 'AnsiString._shift_settings_idx', s, [c.named_int('num'), c.named_bool('keep_origin')], {}, CL_W1,
                     raises=RAISES_W1)
    return ContractRun(body, CL_W1, raises=RAISES_W1)


GROUPS.append(Group('W1', '_shift_settings_idx moves every change point right by num (index 0 kept on request)', ['C12'], 'B',
                    ['AnsiString._shift_settings_idx'], w1_items, w1_task, bounds='change points N<=3/4; num symbolic'))

# ============================================================================================= W2: ljust / rjust / center / zfill
CL_W2 = [
    Clause('text-as-format-pads-it', 'post_pad_text'),
    Clause('originals-keep-settings-fill-takes-adjacent-when-extended', 'post_pad_view', forall='pad_k_range'),
    Clause('wf', 'post_result_wf_ok'),
]
RAISES_W2 = {'ValueError': 'raises_pad'}


def w2_items(tier):
    shp = shapes.table_shapes(2, 2, 2, 2) if tier == 'quick' else shapes.table_shapes(3, 2, 2, 2)
    if tier == 'quick':
        shp = shp + [sh for sh in shapes.table_shapes(3, 2, 2, 2, reuse=False) if len(sh) == 3][:4]
    out = []
    for sh in shp:
        for m in ('ljust', 'rjust', 'center', 'zfill'):
            out.append([sh, m, 1])
    for m in ('ljust', 'rjust', 'center'):
        out.append([[], m, 0])
        out.append([[], m, 2])
    return out


def w2_task(envr, item):
    shape, mname, flen = item

    def body(c):
        s, info = shapes.build_ansistring(c, shape, 'a')
        width = c.named_int('width')
        inplace = c.named_bool('inplace')
        if mname == 'zfill':
            run_contract(envr, c, 'AnsiString.zfill', s, [width, inplace], {}, CL_W2,
                         fields={'mname': mname, 'fillchar': '0', 'extend_formatting': True})
            return
        fill = sym.s_from_chars([c.named_int('fill%d' % i, 32, 126) for i in range(flen)])
        ext = c.named_bool('extend_formatting')
        run_contract(envr, c, 'AnsiString.' + mname, s, [width, fill, inplace, ext], {}, CL_W2, raises=RAISES_W2,
                     fields={'mname': mname})
    return ContractRun(body, CL_W2, raises=RAISES_W2)


GROUPS.append(Group('W2', 'ljust / rjust / center / zfill: text as format() pads it; original characters keep their settings; fill '
                    'characters take the adjacent settings when formatting is extended, none otherwise', ['C12', 'C10'], 'B',
                    ['AnsiString.ljust', 'AnsiString.rjust', 'AnsiString.center', 'AnsiString.zfill',
                     'AnsiString._shift_settings_idx'], w2_items, w2_task,
                    bounds='change points N<=2(3)/3, objects<=2; width, fill character, extend flag, keys, text length symbolic'))
