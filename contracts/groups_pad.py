"""Padding and format-spec groups (DESIGN.md 5, C12)."""
from pyvc import sym, shapes, heap
from pyvc.harness import Group, ContractRun, Clause, run_contract
from pyvc.sym import PObj, PList, PDict, i_cmp, b_and, b_or

GROUPS = []

# ============================================================================================= W1: _shift_settings_idx
CL_W1 = [Clause('keys-shifted-by-num-origin-kept-on-request', 'post_shift_keys')]
RAISES_W1 = {'ValueError': 'raises_shift'}


def w1_items(tier):
    return [[sh] for sh in (shapes.table_shapes(3, 2, 2, 2) if tier == 'quick' else shapes.table_shapes(4, 3, 2, 2))]


def w1_task(envr, item):
    def body(c):
        s, info = shapes.build_ansistring(c, item[0], 'a')
        run_contract(envr, c, 'AnsiString._shift_settings_idx', s, [c.named_int('num'), c.named_bool('keep_origin')], {}, CL_W1,
                     raises=RAISES_W1)
    return ContractRun(body, CL_W1, raises=RAISES_W1)


GROUPS.append(Group('W1', '_shift_settings_idx moves every change point right by num (index 0 kept on request)', ['C12'], 'B',
                    ['AnsiString._shift_settings_idx'], w1_items, w1_task, bounds='change points N<=3/4; num symbolic'))

# ============================================================================================= W2: ljust / rjust / center / zfill
CL_W2 = [
    Clause('text-as-format-pads-it', 'post_pad_text'),
    Clause('originals-keep-settings-fill-takes-adjacent-when-extended', 'post_pad_view', forall='pad_k_range'),
    Clause('wf', 'post_result_wf_ok'),
]
RAISES_W2 = {'ValueError': 'raises_pad'}


def w2_items(tier):
    shp = shapes.table_shapes(2, 2, 2, 2) if tier == 'quick' else shapes.table_shapes(3, 2, 2, 2)
    if tier == 'quick':
        shp = shp + [sh for sh in shapes.table_shapes(3, 2, 2, 2, reuse=False) if len(sh) == 3][:4]
    out = []
    for sh in shp:
        for m in ('ljust', 'rjust', 'center', 'zfill'):
            out.append([sh, m, 1])
    for m in ('ljust', 'rjust', 'center'):
        out.append([[], m, 0])
        out.append([[], m, 2])
    return out


def w2_task(envr, item):
    shape, mname, flen = item

    def body(c):
        s, info = shapes.build_ansistring(c, shape, 'a')
        width = c.named_int('width')
        inplace = c.named_bool('inplace')
        if mname == 'zfill':
            run_contract(envr, c, 'AnsiString.zfill', s, [width, inplace], {}, CL_W2,
                         fields={'mname': mname, 'fillchar': '0', 'extend_formatting': True})
            return
        fill = sym.s_from_chars([c.named_int('fill%d' % i, 32, 126) for i in range(flen)])
        ext = c.named_bool('extend_formatting')
        run_contract(envr, c, 'AnsiString.' + mname, s, [width, fill, inplace, ext], {}, CL_W2, raises=RAISES_W2,
                     fields={'mname': mname})
    return ContractRun(body, CL_W2, raises=RAISES_W2)


GROUPS.append(Group('W2', 'ljust / rjust / center / zfill: text as format() pads it; original characters keep their settings; fill '
                    'characters take the adjacent settings when formatting is extended, none otherwise', ['C12', 'C10'], 'B',
                    ['AnsiString.ljust', 'AnsiString.rjust', 'AnsiString.center', 'AnsiString.zfill',
                     'AnsiString._shift_settings_idx'], w2_items, w2_task,
                    bounds='change points N<=2(3)/3, objects<=2; width, fill character, extend flag, keys, text length symbolic'))


# ============================================================================================= W3: format specs
CL_W3 = [Clause('equals-padding-and-apply_formatting-on-a-copy', 'post_format_spec')]
RAISES_W3 = {'ValueError': 'raises_format_spec'}
SPEC_ALPHABET = (32, 120, 58, 43, 45, 60, 62, 94, 50, 55)   # space x : + - < > ^ 2 7


def w3_items(tier):
    out = []
    L = 3 if tier == 'quick' else 4
    table = [([0], []), ([], [0])]
    for n in range(1, L + 1):
        for ansi in ('none', 'empty', 'code'):
            if tier == 'quick' and n == L and ansi == 'empty':
                continue
            out.append([n, ansi, [], None])
            # with a formatted receiver the work is split by the first character (more, smaller work items)
            if n >= 2:
                for first in SPEC_ALPHABET:
                    out.append([n, ansi, table, first])
            else:
                out.append([n, ansi, table, None])
    out.append([0, 'code', table, None])
    out.append([0, 'name', [], None])
    # the full form fill, sign, align, width (four characters, each position restricted to its own class)
    for ansi in ('none', 'code'):
        out.append(['fsaw', ansi, [], None])
        for al in (60, 62, 94):
            out.append(['fsaw', ansi, table, al])
    return out


def w3_task(envr, item):
    n, ansi, shape, fixed = item

    def body(c):
        from contracts_helpers import render_setting_code
        sett = {0: render_setting_code(c, 's0')} if shape else {}
        s, info = shapes.build_ansistring(c, shape, 'a', settings=sett)
        info['text'].escfree = True
        cps = []
        if n == 'fsaw':
            for i, alpha in enumerate((SPEC_ALPHABET, (43, 45), (60, 62, 94), (50, 55))):
                if i == 2 and fixed is not None:
                    cps.append(fixed)
                    continue
                cp = c.named_int('f%d' % i)
                c.assume(b_or(*[i_cmp('==', cp, a) for a in alpha]))
                cps.append(cp)
        for i in range(n if isinstance(n, int) else 0):
            if i == 0 and fixed is not None:
                cps.append(fixed)
                continue
            cp = c.named_int('f%d' % i)
            c.assume(b_or(*[i_cmp('==', cp, a) for a in SPEC_ALPHABET]))
            cps.append(cp)
        suffix = {'none': '', 'empty': ':', 'code': ':4', 'name': ':bold'}[ansi]
        spec = sym.s_concat(sym.s_from_chars(cps), suffix)
        if isinstance(spec, str) and spec == '':
            raise sym.Infeasible()
        run_contract(envr, c, 'AnsiString.to_str', s, [spec, True, False, True], {}, CL_W3, raises=RAISES_W3, frame=('self',))
    return ContractRun(body, CL_W3, raises=RAISES_W3, frame=('self',), use=('K1', 'SL'))


GROUPS.append(Group('W3', 'to_str(format_spec): [fill][+|-][<|>|^][width][:ansi] equals padding and apply_formatting on a copy; '
                    'ValueError outside the grammar; receiver untouched', ['C12'], 'B',
                    ['AnsiString.to_str', 'AnsiString._apply_string_format', 'AnsiString.__format__', 'AnsiString.ljust',
                     'AnsiString.rjust', 'AnsiString.center', 'AnsiString.apply_formatting'], w3_items, w3_task,
                    bounds='string-format part of length <=3/4 over the characters space x : + - < > ^ 2 7 (symbolic), followed by '
                    'nothing, ":", ":4" or ":bold"; receiver unformatted or with one setting over symbolic range',
                    assumes=['W2', 'F3', 'SL', 'K1']))
