"""Contract clauses for rendering (C01, C15-K5): AnsiString.to_str read by the conforming terminal of spec.py."""
from spec import *  # noqa: F401,F403


def post_render_text(r):
    """the printed characters are exactly base_str, in order (nothing of the text is swallowed by an escape sequence,
    no escape sequence leaks into the text)"""
    return disp_text(r.result) == r.old_self._s


def render_k_range(r):
    return (0, len(r.old_self._s))


def post_render_char_state(r):
    """every character is shown with the effective style of the settings the value reports for it"""
    return disp_state_at(r.result, r.t0, r.k) == eff_state(view(r.old_self, r.k))


def post_render_reset_start(r):
    if r.reset_start:
        return disp_starts_with_reset(r.result)
    return True


def post_render_reset_end(r):
    """with reset_end the terminal is back in its default state whenever any sequence was emitted"""
    if r.reset_end and disp_nseq(r.result) > 0:
        return disp_final(r.result, r.t0) == term_default()
    return True


def post_render_plain_when_unformatted(r):
    """a value without settings renders as its text (plus the leading reset when asked for)"""
    if len(r.old_self._fmts) == 0 and not r.reset_start:
        return r.result == r.old_self._s
    return True
