"""Contract clauses for rendering (C01, C15-K5): AnsiString.to_str read by the conforming terminal of spec.py."""
from spec import *  # noqa: F401,F403


def post_render_text(r):
    """the printed characters are exactly base_str, in order (nothing of the text is swallowed by an escape sequence,
    no escape sequence leaks into the text)"""
    return disp_text(r.result) == r.old_self._s


def render_k_range(r):
    return (0, len(r.old_self._s))


def post_render_char_state(r):
    """every character is shown with the effective style of the settings the value reports for it"""
    return disp_state_at(r.result, r.t0, r.k) == eff_state(view(r.old_self, r.k))


def post_render_reset_start(r):
    if r.reset_start:
        return disp_starts_with_reset(r.result)
    return True


def post_render_reset_end(r):
    """with reset_end the terminal is back in its default state whenever any sequence was emitted"""
    if r.reset_end and disp_nseq(r.result) > 0:
        return disp_final(r.result, r.t0) == term_default()
    return True


def post_render_plain_when_unformatted(r):
    """a value without settings renders as its text (plus the leading reset when asked for)"""
    if len(r.old_self._fmts) == 0 and not r.reset_start:
        return r.result == r.old_self._s
    return True


# ------------------------------------------------------------------------------------------ T1: the library's SGR tables
GROUP_NAME = {0: 'RESET', 1: 'BOLDNESS', 2: 'ITALICS', 3: 'UNDERLINE', 4: 'OVERLINE', 5: 'BLINKING', 6: 'SWAP_BG_FG',
              7: 'VISIBILITY', 8: 'CROSSED_OUT', 9: 'FONT_TYPE', 10: 'SPACING', 11: 'BOXING', 12: 'FG_COLOR', 13: 'BG_COLOR',
              14: 'UL_COLOR'}
KIND_NAME = {1: 'APPLY_SETTING', 2: 'CLEAR_SETTING', 3: 'RESET_ALL'}


def table_row_ok(AnsiParam, code):
    """the library knows exactly the codes of the independent SGR table, with the same effect group and the same
    function (set / clear / reset).  Code 10 (primary font) may be classed as a font setting: displaying it and
    clearing the font are the same thing."""
    g = sgr_group(code)
    try:
        p = AnsiParam(code)
    except ValueError:
        return g == -1
    if g == -1:
        return False
    if p.effect_type.name != GROUP_NAME[g]:
        return False
    if code == 10:
        return p.effect_fn.name == 'APPLY_SETTING' or p.effect_fn.name == 'CLEAR_SETTING'
    return p.effect_fn.name == KIND_NAME[sgr_kind(code)]


def clear_dict_ok(EFFECT_CLEAR_DICT, AnsiParamEffect):
    """every effect group is cleared by the code a terminal understands as switching that effect off"""
    for g in range(1, 15):
        eff = AnsiParamEffect[GROUP_NAME[g]]
        if eff not in EFFECT_CLEAR_DICT:
            return False
        if EFFECT_CLEAR_DICT[eff].value != CLEAR_CODE[g]:
            return False
    return len(EFFECT_CLEAR_DICT) == 15


def control_fns_ok(fns):
    """exactly the six extended colour functions {38,48,58} x {5 -> 1 argument, 2 -> 3 arguments}"""
    seen = []
    for fn in fns:
        seq = fn.setup_seq
        if len(seq) != 2 or not (seq[0] == 38 or seq[0] == 48 or seq[0] == 58):
            return False
        if seq[1] == 5:
            if fn.num_args != 1 or fn.total_seq_count != 3:
                return False
        elif seq[1] == 2:
            if fn.num_args != 3 or fn.total_seq_count != 5:
                return False
        else:
            return False
        if seq in seen:
            return False
        seen.append(seq)
    return len(seen) == 6


# ------------------------------------------------------------------------------------------ Q1-Q3: round trip and simplify (C03)
def roundtrip(AnsiString, s):
    """render, then parse the rendering back"""
    return AnsiString(str(s))


def post_rt_text(r):
    return r.result._s == r.old_s._s


def rt_k_range(r):
    return (0, len(r.old_s._s))


def post_rt_char_state(r):
    """every character of the re-parsed value has the effective style it has in the source"""
    return eff_state(view(r.result, r.k)) == eff_state(view(r.old_s, r.k))


def post_rt_result_wf(r):
    return wf_ok(r.result) and r.result is not r.s


def valid_settings(lst):
    out = []
    for x in lst:
        if valid_spec(str(x)):
            out.append(x)
    return out


def post_simplify_text(r):
    return r.self._s == r.old_self._s and r.result is None


def simplify_k_range(r):
    return (0, len(r.old_self._s))


def post_simplify_char_state(r):
    """simplify keeps the effective style of every character (of its valid settings: an invalid setting - one that
    would end the escape sequence - has no defined style and is dropped)"""
    return eff_state(view(r.self, r.k)) == eff_state(valid_settings(view(r.old_self, r.k)))


def all_table_settings(v):
    out = []
    for key in v._fmts:
        p = v._fmts[key]
        for x in p.add:
            out.append(x)
        for x in p.rem:
            out.append(x)
    return out


def post_simplify_all_parsable(r):
    """afterwards every setting is valid and parsable (is_formatting_parsable() is True)"""
    for x in all_table_settings(r.self):
        if not parsable_spec(str(x)):
            return False
    return wf_ok(r.self) and r.self.is_formatting_parsable()


def simplify_twice(s):
    s.simplify()
    a = str(s)
    s.simplify()
    b = str(s)
    return (a, b)


def post_simplify_idempotent(r):
    """a second simplify() leaves the rendering unchanged"""
    return r.result[0] == r.result[1]


def render_parse_render(AnsiString, s):
    s.simplify()
    a = str(s)
    return (a, str(AnsiString(a)))


def post_simplified_is_fixed_point(r):
    """a simplified value renders to a fixed point: str(AnsiString(str(s))) == str(s)"""
    return r.result[0] == r.result[1]
