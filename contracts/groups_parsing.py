"""Parsing groups: tokenizer (C19), SGR code lists (C18), input parsing (C02)."""
from pyvc import sym, shapes, heap
from pyvc.harness import Group, ContractRun, Clause, run_contract
from pyvc.sym import PObj, PList, PDict, i_cmp, b_and, b_or
from pyvc.interp import ClassRef

GROUPS = []

# character classes the tokenizer distinguishes: ESC, '[', a parameter digit, ';', the final bytes 'm' and 'A', plain 'x'
TOK_ALPHABET = (27, 91, 49, 59, 109, 65, 120)


def sym_text(c, n, alphabet, prefix='c'):
    cps = []
    for i in range(n):
        cp = c.named_int('%s%d' % (prefix, i))
        c.assume(b_or(*[i_cmp('==', cp, a) for a in alphabet]))
        cps.append(cp)
    return sym.s_from_chars(cps)


# ============================================================================================= B1: tokenizer
CL_B1 = [Clause('unformatted-text-is-input-minus-recognised-sequences', 'post_tokens_text'),
         Clause('sequences-recorded-at-their-removal-points-in-order', 'post_tokens_sequences')]


def b1_items(tier):
    L = 5 if tier == 'quick' else 7
    out = []
    for n in range(0, L + 1):
        for acc in ('none', 'm', 'mA'):
            for allow in (0, 1):
                if n > 5 and acc == 'mA':
                    continue
                out.append([n, acc, allow])
    return out


def b1_task(envr, item):
    n, acc, allow = item

    def body(c):
        s = sym_text(c, n, TOK_ALPHABET)
        accept = {'none': None, 'm': 'm', 'mA': 'mA'}[acc]
        obj = PObj('ParsedAnsiControlSequenceString')
        run_contract(envr, c, 'ParsedAnsiControlSequenceString.__init__', obj, [s, bool(allow), accept], {}, CL_B1)
    return ContractRun(body, CL_B1)


GROUPS.append(Group('B1', 'ParsedAnsiControlSequenceString: unformatted_str and sequences are the tokenisation the statement describes',
                    ['C19', 'C02'], 'B', ['ParsedAnsiControlSequenceString.__init__', 'AnsiControlSequence.__init__'], b1_items,
                    b1_task, bounds='strings of length <=5/7 over the character classes ESC [ digit ; m A x (symbolic characters); '
                    'acceptable terminators None / "m" / "mA"; unterminated sequences allowed or not'))

# ============================================================================================= B2: lossless
CL_B2 = [Clause('re-insertion-reproduces-the-input', 'post_formatted_is_input')]


def b2_items(tier):
    L = 5 if tier == 'quick' else 7
    return [[n, fn] for n in range(0, L + 1) for fn in ('formatted_str', '__str__', '__repr__')]


def b2_task(envr, item):
    n, fn = item

    def body(c):
        s = sym_text(c, n, TOK_ALPHABET)
        allow = c.named_bool('allow')
        accept = [None, 'm'][c.choice(2)]
        obj = envr.interp.instantiate('ParsedAnsiControlSequenceString', [s, allow, accept], {})
        run_contract(envr, c, 'ParsedAnsiControlSequenceString.' + fn, obj, [], {}, CL_B2, fields={'original': s},
                     frame=('self',))
    return ContractRun(body, CL_B2, frame=('self',))


GROUPS.append(Group('B2', 'formatted_str / str() / repr() of a parsed string reproduce the original string', ['C19'], 'B',
                    ['ParsedAnsiControlSequenceString.formatted_str', 'ParsedAnsiControlSequenceString.__str__',
                     'ParsedAnsiControlSequenceString.__repr__'], b2_items, b2_task,
                    bounds='strings of length <=5/7 over ESC [ digit ; m A x; both constructor flags'))

# ============================================================================================= B3: helpers
HELPERS = {'cursor_up_str': 'A', 'cursor_down_str': 'B', 'cursor_forward_str': 'C', 'cursor_backward_str': 'D',
           'cursor_next_line_str': 'E', 'cursor_previous_line_str': 'F', 'cursor_horizontal_absolute_str': 'G',
           'erase_in_display_str': 'J', 'erase_in_line_str': 'K', 'scroll_up_str': 'S', 'scroll_down_str': 'T'}
CL_B3 = [Clause('one-sequence-with-the-documented-final-byte', 'post_helper_1')]
CL_B3P = [Clause('one-sequence-with-the-documented-final-byte', 'post_helper_2')]


def b3_items(tier):
    return [[h] for h in sorted(HELPERS)] + [['cursor_position_str']]


def b3_task(envr, item):
    name = item[0]

    def body(c):
        if name == 'cursor_position_str':
            run_contract(envr, c, name, None, [c.named_int('row'), c.named_int('column')], {}, CL_B3P, fields={'final': 'H'})
        else:
            run_contract(envr, c, name, None, [c.named_int('n')], {}, CL_B3, fields={'final': HELPERS[name]})
    return ContractRun(body, CL_B3P if name == 'cursor_position_str' else CL_B3)


GROUPS.append(Group('B3', 'cursor_*, erase_*, scroll_* helpers return ESC [ <decimal arguments> <documented final byte>', ['C19'],
                    'U', sorted(HELPERS) + ['cursor_position_str'], b3_items, b3_task, bounds='none: all integers'))


# ============================================================================================= B3b: helper output is one sequence
CL_B3B = [Clause('parser-sees-one-sequence-and-no-text', 'post_helper_parses_as_one_sequence')]


def b3b_items(tier):
    return [[h] for h in sorted(HELPERS)] + [['cursor_position_str']]


def b3b_task(envr, item):
    name = item[0]
    I = envr.interp

    def body(c):
        if name == 'cursor_position_str':
            args = [c.named_int('row', -99, 999), c.named_int('column', -99, 999)]
            final = 'H'
        else:
            args = [c.named_int('n', -99, 999)]
            final = HELPERS[name]
        out = I.call_name(name, *args)
        text = sym.expand_istr(out)
        params = text[2:-1] if isinstance(text, str) else sym.s_from_chars(sym.s_chars(text)[2:-1])
        obj = PObj('ParsedAnsiControlSequenceString')
        run_contract(envr, c, 'ParsedAnsiControlSequenceString.__init__', obj, [text], {}, CL_B3B,
                     fields={'final': final, 'params': params})
    return ContractRun(body, CL_B3B)


GROUPS.append(Group('B3b', 'the parser recognises each helper output as exactly one sequence and no text', ['C19'], 'B',
                    sorted(HELPERS) + ['cursor_position_str', 'ParsedAnsiControlSequenceString.__init__'], b3b_items, b3b_task,
                    bounds='helper arguments -99..999 (symbolic; the decimal digits are then explicit characters)'))
