"""Parsing groups: tokenizer (C19), SGR code lists (C18), input parsing (C02)."""
from pyvc import sym, shapes, heap
from pyvc.harness import Group, ContractRun, Clause, run_contract
from pyvc.sym import PObj, PList, PDict, i_cmp, b_and, b_or
from pyvc.interp import ClassRef

GROUPS = []

# character classes the tokenizer distinguishes: ESC, '[', a parameter digit, ';', the final bytes 'm' and 'A', plain 'x',
# and the bytes at the edges of the final-byte range 0x40-0x7E
TOK_ALPHABET = (27, 91, 49, 59, 109, 65, 120, 63, 64, 126, 127)  # + boundary bytes ? @ ~ DEL


def sym_text(c, n, alphabet, prefix='c'):
    cps = []
    for i in range(n):
        cp = c.named_int('%s%d' % (prefix, i))
        c.assume(b_or(*[i_cmp('==', cp, a) for a in alphabet]))
        cps.append(cp)
    return sym.s_from_chars(cps)


# ============================================================================================= B1: tokenizer
CL_B1 = [Clause('unformatted-text-is-input-minus-recognised-sequences', 'post_tokens_text'),
         Clause('sequences-recorded-at-their-removal-points-in-order', 'post_tokens_sequences')]


def b1_items(tier):
    L = 5 if tier == 'quick' else 7
    out = []
    for n in range(0, L + 1):
        for acc in ('none', 'm', 'mA'):
            for allow in (0, 1):
                if n > 5 and acc == 'mA':
                    continue
                out.append([n, acc, allow])
    if tier == 'quick':
        out.append([6, 'm', 0])   # the configuration AnsiString parses with, one character longer
    return out


def b1_task(envr, item):
    n, acc, allow = item

    def body(c):
        s = sym_text(c, n, TOK_ALPHABET)
        accept = {'none': None, 'm': 'm', 'mA': 'mA'}[acc]
        obj = PObj('ParsedAnsiControlSequenceString')
        run_contract(envr, c, 'ParsedAnsiControlSequenceString.__init__', obj, [s, bool(allow), accept], {}, CL_B1)
    return ContractRun(body, CL_B1)


GROUPS.append(Group('B1', 'ParsedAnsiControlSequenceString: unformatted_str and sequences are the tokenisation the statement describes',
                    ['C19', 'C02'], 'B', ['ParsedAnsiControlSequenceString.__init__', 'AnsiControlSequence.__init__'], b1_items,
                    b1_task, bounds='strings of length <=5/7 over the character classes ESC [ digit ; m A x (symbolic characters); '
                    'acceptable terminators None / "m" / "mA"; unterminated sequences allowed or not'))

# ============================================================================================= B2: lossless
CL_B2 = [Clause('re-insertion-reproduces-the-input', 'post_formatted_is_input')]


B2_TEMPLATES = ('TSST', 'TSTST', 'SS', 'TSSST', 'STTSS', 'TTSS')   # T = one symbolic character, S = ESC [ <symbolic> m


def b2_items(tier):
    L = 5 if tier == 'quick' else 7
    out = [[n, fn] for n in range(0, L + 1) for fn in ('formatted_str', '__str__', '__repr__')]
    # longer inputs of a fixed shape: several sequences at one removal point, text before / between / after
    out += [[t, 'formatted_str'] for t in B2_TEMPLATES]
    return out


def b2_task(envr, item):
    n, fn = item

    def body(c):
        if isinstance(n, str):
            cps = []
            for j, ch in enumerate(n):
                if ch == 'T':
                    cps.extend(sym.s_chars(sym_text(c, 1, TOK_ALPHABET, 't%d_' % j)))
                else:
                    cps.extend([27, 91] + sym.s_chars(sym_text(c, 1, (49, 59, 63), 'p%d_' % j)) + [109])
            s = sym.s_from_chars(cps)
        else:
            s = sym_text(c, n, TOK_ALPHABET)
        allow = c.named_bool('allow')
        accept = [None, 'm'][c.choice(2)]
        obj = envr.interp.instantiate('ParsedAnsiControlSequenceString', [s, allow, accept], {})
        run_contract(envr, c, 'ParsedAnsiControlSequenceString.' + fn, obj, [], {}, CL_B2, fields={'original': s},
                     frame=('self',))
    return ContractRun(body, CL_B2, frame=('self',))


GROUPS.append(Group('B2', 'formatted_str / str() / repr() of a parsed string reproduce the original string (all short strings, plus longer templates with several sequences at one removal point)', ['C19'], 'B',
                    ['ParsedAnsiControlSequenceString.formatted_str', 'ParsedAnsiControlSequenceString.__str__',
                     'ParsedAnsiControlSequenceString.__repr__'], b2_items, b2_task,
                    bounds='strings of length <=5/7 over ESC [ digit ; m A x; both constructor flags'))

# ============================================================================================= B3: helpers
HELPERS = {'cursor_up_str': 'A', 'cursor_down_str': 'B', 'cursor_forward_str': 'C', 'cursor_backward_str': 'D',
           'cursor_next_line_str': 'E', 'cursor_previous_line_str': 'F', 'cursor_horizontal_absolute_str': 'G',
           'erase_in_display_str': 'J', 'erase_in_line_str': 'K', 'scroll_up_str': 'S', 'scroll_down_str': 'T'}
CL_B3 = [Clause('one-sequence-with-the-documented-final-byte', 'post_helper_1')]
CL_B3P = [Clause('one-sequence-with-the-documented-final-byte', 'post_helper_2')]


def b3_items(tier):
    return [[h] for h in sorted(HELPERS)] + [['cursor_position_str']]


def b3_task(envr, item):
    name = item[0]

    def body(c):
        if name == 'cursor_position_str':
            run_contract(envr, c, name, None, [c.named_int('row'), c.named_int('column')], {}, CL_B3P, fields={'final': 'H'})
        else:
            run_contract(envr, c, name, None, [c.named_int('n')], {}, CL_B3, fields={'final': HELPERS[name]})
    return ContractRun(body, CL_B3P if name == 'cursor_position_str' else CL_B3)


GROUPS.append(Group('B3', 'cursor_*, erase_*, scroll_* helpers return ESC [ <decimal arguments> <documented final byte>', ['C19'],
                    'U', sorted(HELPERS) + ['cursor_position_str'], b3_items, b3_task, bounds='none: all integers'))


# ============================================================================================= B3b: helper output is one sequence
CL_B3B = [Clause('parser-sees-one-sequence-and-no-text', 'post_helper_parses_as_one_sequence')]


def b3b_items(tier):
    return [[h] for h in sorted(HELPERS)] + [['cursor_position_str']]


def b3b_task(envr, item):
    name = item[0]
    I = envr.interp

    def body(c):
        if name == 'cursor_position_str':
            args = [c.named_int('row', -99, 999), c.named_int('column', -99, 999)]
            final = 'H'
        else:
            args = [c.named_int('n', -99, 999)]
            final = HELPERS[name]
        out = I.call_name(name, *args)
        text = sym.expand_istr(out)
        params = text[2:-1] if isinstance(text, str) else sym.s_from_chars(sym.s_chars(text)[2:-1])
        obj = PObj('ParsedAnsiControlSequenceString')
        run_contract(envr, c, 'ParsedAnsiControlSequenceString.__init__', obj, [text], {}, CL_B3B,
                     fields={'final': final, 'params': params})
    return ContractRun(body, CL_B3B)


GROUPS.append(Group('B3b', 'the parser recognises each helper output as exactly one sequence and no text', ['C19'], 'B',
                    sorted(HELPERS) + ['cursor_position_str', 'ParsedAnsiControlSequenceString.__init__'], b3b_items, b3b_task,
                    bounds='helper arguments -99..999 (symbolic; the decimal digits are then explicit characters)'))


# ============================================================================================= S2D: settings_to_dict
CL_S2D = [Clause('result-is-prior-state-with-codes-applied', 'post_s2d_is_fold'),
          Clause('result-is-a-new-dict', 'post_s2d_result_is_new'),
          Clause('entries-are-the-given-setting-objects', 'post_s2d_entries_are_given_settings')]


def group_setting(c, kind, name, no_intro=True):
    """a setting that is one parameter group: a single code (not a bare 38/48/58), 38|48|58;5;n or 38|48|58;2;r;g;b"""
    if kind == 'code':
        code = c.named_int('code_' + name, 0, 110)
        if no_intro:
            c.assume(b_and(i_cmp('!=', code, 38), i_cmp('!=', code, 48), i_cmp('!=', code, 58)))
        rope = sym.mk_rope([('istr', code)])
    elif kind == 'c256':
        intro = [38, 48, 58][c.choice(3)]
        rope = sym.mk_rope([('lit', '%d;5;' % intro), ('istr', c.named_int('n_' + name, 0, 255))])
    else:
        intro = [38, 48, 58][c.choice(3)]
        r_, g_, b_ = (c.named_int(x + '_' + name, 0, 255) for x in 'rgb')
        rope = sym.mk_rope([('lit', '%d;2;' % intro), ('istr', r_), ('lit', ';'), ('istr', g_), ('lit', ';'), ('istr', b_)])
    return PObj('AnsiSetting', {'_str': rope})


def s2d_items(tier):
    out = []
    kinds = ('code', 'c256', 'rgb')
    maxk = 2 if tier == 'quick' else 3
    seqs = [[]]
    for k in range(1, maxk + 1):
        seqs += [list(x) for x in __import__('itertools').product(kinds if k < 3 else ('code', 'c256'), repeat=k)]
    for sq in seqs:
        for nold in (0, 1, 2):
            if tier == 'quick' and nold == 2 and len(sq) > 1:
                continue
            for dflt in ((0, 1) if nold == 0 else (0,)):
                out.append([sq, nold, dflt])
    return out


def s2d_task(envr, item):
    sq, nold, use_default = item
    I = envr.interp

    def body(c):
        settings = PList([group_setting(c, k, 's%d' % i) for i, k in enumerate(sq)])
        args = [settings]
        if not use_default:
            old = PDict()
            groups = []
            for j in range(nold):
                # a prior entry as settings_to_dict itself would have stored it: keyed by the effect of an apply code
                code = c.named_int('oldcode%d' % j, 1, 107)
                st = PObj('AnsiSetting', {'_str': sym.mk_rope([('istr', code)])})
                try:
                    param = I.bm.enum_by_value(I, 'AnsiParam', code)
                except sym.PyExc:
                    raise sym.Infeasible()   # not a code the library knows: no such prior entry exists
                c.assume(sym.Z(sym.b_and(sym.i_cmp('!=', code, 38), sym.i_cmp('!=', code, 48), sym.i_cmp('!=', code, 58))))
                fn = I.getattr(param, 'effect_fn')
                if not I.truth(I.bm.v_eq(I, fn, I.lift_enum(envr.program.enum_native['AnsiParamEffectFn'].APPLY_SETTING))):
                    raise sym.Infeasible()
                eff = I.getattr(param, 'effect_type')
                for g in groups:
                    c.assume(sym.i_cmp('!=', eff.index, g.index))
                groups.append(eff)
                old.keys.append(eff)
                old.vals.append(st)
            args.append(old)
        run_contract(envr, c, 'settings_to_dict', None, args, {}, CL_S2D if not use_default else CL_S2D[:1],
                     frame=('settings', 'old_settings_dict') if not use_default else ('settings',),
                     fields={} if not use_default else {'old_old_settings_dict': PDict()})
    return ContractRun(body, CL_S2D if not use_default else CL_S2D[:1],
                       frame=('settings', 'old_settings_dict') if not use_default else ('settings',), use=('K1',))


GROUPS.append(Group('S2D', 'settings_to_dict applies the codes of the settings on top of the prior state; arguments untouched',
                    ['C18', 'C01', 'C02'], 'B', ['settings_to_dict', 'AnsiSetting.get_initial_param'], s2d_items, s2d_task,
                    bounds='0-2/3 settings, each one parameter group with symbolic numbers (any code 0..110 except a bare 38/48/58; '
                    '38|48|58;5;n; 38|48|58;2;r;g;b); prior dict with 0-2 entries, or the default argument', assumes=['T1']))

# ============================================================================================= J1: parse_graphic_sequence
CL_J1 = [Clause('reduces-to-the-terminal-state-of-the-code-list', 'post_parse_terminal_agreement'),
         Clause('erroneous-mode-keeps-every-integer-token-in-order', 'post_parse_all_tokens_kept'),
         Clause('empty-sequence-means-reset', 'post_parse_empty_is_reset'),
         Clause('returned-settings-are-complete-groups', 'post_parse_groups_are_complete')]


def j1_items(tier):
    K = 4 if tier == 'quick' else 6
    out = []
    for k in range(0, K + 1):
        for form in ('list', 'str'):
            for ae in (0, 1):
                out.append([k, form, ae])
    out.append([2, 'strlist', 0])
    out.append([3, 'strlist', 1])
    # a complete 24-bit group next to one more code (six tokens; the group's position is fixed to keep the paths few)
    for form in ('list', 'str'):
        for ae in (0, 1):
            out.append([6, form, ae, 'rgb-first'])
            out.append([6, form, ae, 'rgb-last'])
            out.append([4, form, ae, 'c256-last'])
    return out


def j1_task(envr, item):
    k, form, ae = item[0], item[1], item[2]
    pattern = item[3] if len(item) > 3 else None

    def body(c):
        vals = [c.named_int('v%d' % i, 0, 255) for i in range(k)]
        if pattern is not None:
            intro = [38, 48, 58][c.choice(3)]
            if pattern == 'rgb-first':
                vals[0], vals[1] = intro, 2
            elif pattern == 'rgb-last':
                vals[1], vals[2] = intro, 2
            else:
                vals[1], vals[2] = intro, 5
        if form == 'list':
            seq = PList(vals)
        elif form == 'strlist':
            seq = PList([sym.mk_rope([('lit', ' '), ('istr', v)]) for v in vals])
        else:
            atoms = []
            for i, v in enumerate(vals):
                if i:
                    atoms.append(('lit', ';'))
                atoms.append(('istr', v))
            seq = sym.mk_rope(atoms)
        run_contract(envr, c, 'parse_graphic_sequence', None, [seq, bool(ae)], {}, CL_J1, frame=('sequence',))
    return ContractRun(body, CL_J1, frame=('sequence',), use=('K1',))


GROUPS.append(Group('J1', 'parse_graphic_sequence agrees with a terminal reading of the same code list', ['C18', 'C02', 'C14'], 'B',
                    ['parse_graphic_sequence', '_AnsiControlFn.seq_starts_with_fn', 'AnsiSetting.__init__'], j1_items, j1_task,
                    bounds='code lists of length <=4/6 with symbolic values 0..255, given as list of ints, list of strings, or '
                    '";"-separated string; both add_erroneous modes', assumes=['T1']))


# ============================================================================================= P3: set_ansi_str on structured input
CL_P3 = [
    Clause('base-text-is-input-minus-sgr-sequences', 'post_parse_text'),
    Clause('each-character-has-the-terminal-state', 'post_parse_char_state', forall='parse_k_range'),
    Clause('plain-text-unchanged-and-unformatted', 'post_parse_plain_unformatted'),
    Clause('wf', 'post_self_wf'),
]


def sgr_rope(c, tag, spec):
    """ESC [ ... m with one entry per letter of spec: s = a single symbolic code 0..110 that is not 38/48/58,
    c = 38|48|58;5;n, g = 38|48|58;2;r;g;b, e = an empty parameter, z = the literal 0, i = a bare 38|48|58,
    h = an incomplete group 38|48|58;5 or ;2"""
    atoms = [('lit', '\x1b[')]
    for i, ch in enumerate(spec):
        if i:
            atoms.append(('lit', ';'))
        nm = '%s_%d' % (tag, i)
        if ch == 's':
            code = c.named_int(nm, 0, 110)
            c.assume(b_and(i_cmp('!=', code, 38), i_cmp('!=', code, 48), i_cmp('!=', code, 58)))
            atoms.append(('istr', code))
        elif ch == 'c':
            atoms.append(('lit', '%d;5;' % [38, 48, 58][c.choice(3)]))
            atoms.append(('istr', c.named_int(nm, 0, 255)))
        elif ch == 'g':
            atoms.append(('lit', '%d;2;' % [38, 48, 58][c.choice(3)]))
            for j, x in enumerate('rgb'):
                if j:
                    atoms.append(('lit', ';'))
                atoms.append(('istr', c.named_int(nm + x, 0, 255)))
        elif ch == 'z':
            atoms.append(('lit', '0'))
        elif ch == 'i':
            atoms.append(('lit', '%d' % [38, 48, 58][c.choice(3)]))
        elif ch == 'h':
            atoms.append(('lit', '%d;%d' % ([38, 48, 58][c.choice(3)], [5, 2][c.choice(2)])))
        elif ch == 'e':
            pass
    atoms.append(('lit', 'm'))
    return atoms


def p3_items(tier):
    out = [[[], 'plain']]
    one = ['', 's', 'ss', 'c', 'g', 'sc', 'cs', 'z', 'sz', 'ses']
    for sp in one:
        out.append([[sp], 'plain'])
    two = [['s', 's'], ['s', ''], ['ss', 's'], ['c', 's'], ['s', 'c'], ['s', 'z'], ['g', 'c'], ['h', 's'], ['i', 's'], ['sh', 's']]
    if tier != 'quick':
        two += [['sc', 's'], ['ss', 'ss'], ['c', 'c'], ['s', 'sg'], ['sz', 's']]
    for sp in two:
        out.append([sp, 'plain'])
    out.append([['s', 's', 's'], 'plain'])
    out.append([['s'], 'other-csi'])
    out.append([['s'], 'unterminated-tail'])
    out.append([[], 'unterminated-tail'])
    out.append([['c'], 'esc-tail'])
    return out


def p3_task(envr, item):
    seqspecs, flavour = item

    def body(c):
        atoms = []
        for i, sp in enumerate(seqspecs):
            T = c.opaque_text('T%d' % i)
            T.escfree = True
            atoms.extend(sym.atoms_of(sym.s_opaque(T)))
            if flavour == 'other-csi' and i == 0:
                atoms.extend([('lit', '\x1b['), ('istr', c.named_int('cur', 0, 99)), ('lit', 'A')])
                T2 = c.opaque_text('Tx')
                T2.escfree = True
                atoms.extend(sym.atoms_of(sym.s_opaque(T2)))
            atoms.extend(sgr_rope(c, 'v%d' % i, sp))
        Tl = c.opaque_text('Tlast')
        Tl.escfree = True
        atoms.extend(sym.atoms_of(sym.s_opaque(Tl)))
        if flavour == 'unterminated-tail':
            # the input ends inside a control sequence that never gets its final byte: kept verbatim as text
            atoms.extend([('lit', '\x1b['), ('istr', c.named_int('tailcode', 0, 99))])
            if c.choice(2):
                atoms.append(('lit', ';'))
        elif flavour == 'esc-tail':
            atoms.append(('lit', ['\x1b', '\x1b['][c.choice(2)]))
        s = sym.mk_rope(atoms)
        obj = PObj('AnsiString', {'_fmts': PDict(), '_s': ''})
        run_contract(envr, c, 'AnsiString.set_ansi_str', obj, [s], {}, CL_P3)
    return ContractRun(body, CL_P3, use=('B1', 'SL', 'K1'), nosumm=('AnsiString.set_ansi_str',))


GROUPS.append(Group('P3', 'parsing ANSI-coded input: base text is the input minus its SGR sequences, every character reports the '
                    'style a terminal would show it with', ['C02', 'C03'], 'B',
                    ['AnsiString.set_ansi_str', 'parse_graphic_sequence', 'settings_to_dict', 'AnsiString.apply_formatting',
                     'AnsiString.remove_formatting'], p3_items, p3_task,
                    bounds='inputs made of 0-3 SGR sequences, each 0-3 parameter groups (a symbolic single code 0..110, 38|48|58;5;n, '
                    '38|48|58;2;r;g;b, an empty parameter, a literal 0), separated and surrounded by texts of arbitrary length '
                    '(possibly empty, without ESC); one non-SGR sequence in the text',
                    assumes=['B1', 'SL', 'T1']))


# ============================================================================================= P4: text without ESC (unbounded)
from pyvc import loopcut  # noqa: E402
import z3  # noqa: E402


def cut_tokenizer_plain(interp, node, fr):
    """Inductive invariant of the tokenizer's outer loop for an input without ESC:
         self._s == s[:i]  and  self.sequences == {}  and  0 <= i <= len(s);   variant len(s) - i."""
    from pyvc.interp import BreakSig, ContinueSig
    c = sym.ctx()
    self_ = fr.env['self']
    s = fr.env['s']
    at = sym.atoms_of(s)
    if len(at) != 1 or at[0][0] != 'opq' or sym.s_chars(s) is not None:
        return NotImplemented
    n = sym.s_len(s)

    def inv(i):
        r = sym.s_eq(self_.attrs['_s'], sym.s_slice(s, 0, i))
        if isinstance(r, sym.Approx):
            r = r.cond
        return b_and(r, len(self_.attrs['sequences'].keys) == 0, i_cmp('>=', i, 0), i_cmp('<=', i, n))
    c.prove('loop-invariant-on-entry:tokenizer', inv(fr.env['i']))
    which = c.choice(2)
    i = c.fresh_int('i')
    fr.env['i'] = i
    self_.attrs['sequences'] = PDict()
    c.assume(i_cmp('>=', i, 0))
    c.assume(i_cmp('<=', i, n))
    self_.attrs['_s'] = sym.s_slice(s, 0, i)
    if which == 0:
        c.assume(i_cmp('<', i, n))
        if not c.feasible():
            raise sym.Infeasible()
        if not interp.truth(interp.eval(node.test, fr)):
            c.fail('loop-guard-holds-inside', 'guard false although i < len(s)')
        interp.exec_block(node.body, fr)
        c.prove('loop-invariant-preserved:tokenizer', inv(fr.env['i']))
        c.prove('loop-variant-decreases:tokenizer', i_cmp('>', fr.env['i'], i))
        raise loopcut.PathEnd()
    c.assume(i_cmp('>=', i, n))
    if interp.truth(interp.eval(node.test, fr)):
        c.fail('loop-guard-false-at-exit', 'guard true although i >= len(s)')
    return None


P4_CUTS = {('ParsedAnsiControlSequenceString.__init__', 0): cut_tokenizer_plain}
CL_P4 = [Clause('text-kept-unchanged-and-unformatted', 'post_parse_plain_unformatted'), Clause('text-is-input', 'post_parse_text')]


def p4_items(tier):
    return [['set_ansi_str'], ['init']]


def p4_task(envr, item):
    def body(c):
        T = c.opaque_text('T')
        c.declare_esc_free(T)
        s = sym.s_opaque(T)
        if item[0] == 'set_ansi_str':
            obj = PObj('AnsiString', {'_fmts': PDict(), '_s': ''})
            run_contract(envr, c, 'AnsiString.set_ansi_str', obj, [s], {}, CL_P4)
        else:
            obj = PObj('AnsiString')
            run_contract(envr, c, 'AnsiString.__init__', obj, [s], {}, CL_P4)
    return ContractRun(body, CL_P4, cuts=P4_CUTS, nosumm=('AnsiString.set_ansi_str',))


GROUPS.append(Group('P4', 'text without escape sequences is kept unchanged and unformatted (any length)', ['C02', 'C04', 'C05'], 'U',
                    ['AnsiString.set_ansi_str', 'AnsiString.__init__', 'ParsedAnsiControlSequenceString.__init__'], p4_items,
                    p4_task, bounds='none: any text length without ESC (tokenizer loop cut by the invariant "_s == s[:i], no '
                    'sequences"; variant len(s) - i)'))
