"""Contract clauses for ansi_parsing.py (C19: B1-B3, C18: J1, S2D) and for parsing input text (C02)."""
from spec import *  # noqa: F401,F403


# ------------------------------------------------------------------------------------------ B1 / B2
def post_tokens_text(r):
    e = csi_tokens(r.old_s, r.allow_empty_terminator, r.acceptable_terminators)
    return r.self._s == e[0]


def post_tokens_sequences(r):
    """sequences maps each removal point to the removed sequences (parameters, final byte) in order"""
    e = csi_tokens(r.old_s, r.allow_empty_terminator, r.acceptable_terminators)
    exp = {}
    for idx, params, term in e[1]:
        if idx not in exp:
            exp[idx] = []
        exp[idx].append((params, term))
    got = r.self.sequences
    if len(got) != len(exp):
        return False
    for idx in exp:
        if idx not in got:
            return False
        lst = got[idx]
        if len(lst) != len(exp[idx]):
            return False
        i = 0
        for p, t in exp[idx]:
            if lst[i].sequence != p or lst[i].terminator != t:
                return False
            i += 1
    return True


def post_formatted_is_input(r):
    """re-inserting the sequences reproduces the parsed string exactly"""
    return r.result == r.original


# ------------------------------------------------------------------------------------------ B3: helpers
def post_helper_1(r):
    return r.result == '\x1b[' + str(r.n) + r.final


def post_helper_2(r):
    return r.result == '\x1b[' + str(r.row) + ';' + str(r.column) + r.final


def post_helper_parses_as_one_sequence(r):
    """the parser recognises the helper's output as exactly one sequence with the documented final byte, empty text"""
    if r.self._s != '':
        return False
    if len(r.self.sequences) != 1 or 0 not in r.self.sequences:
        return False
    lst = r.self.sequences[0]
    if len(lst) != 1:
        return False
    return lst[0].terminator == r.final and lst[0].sequence == r.params


# ------------------------------------------------------------------------------------------ S2D
def tuple5(codes):
    out = [-1, -1, -1, -1, -1]
    i = 0
    for c in codes:
        if i < 5:
            out[i] = c
        i += 1
    return (out[0], out[1], out[2], out[3], out[4])


def dict_state(d):
    """terminal state described by an effect dictionary (effect group -> the setting that set it)"""
    st = term_default()
    for eff in d:
        val = tuple5(codes_of_text(str(d[eff])))
        if sgr_kind(val[0]) == K_CLEAR:
            val = TERM_OFF   # e.g. "10" (primary font) stored as a font setting displays like no font setting
        st = state_set(st, eff.value - 1, val)
    return st


def post_s2d_is_fold(r):
    """the result is the prior state with the settings' codes applied in order: an apply code replaces the entry of its
    effect group, a clear code deletes it, reset empties the state, unknown codes change nothing"""
    exp = dict_state(r.old_old_settings_dict)
    for s in r.old_settings:
        exp = term_apply(exp, codes_of_text(str(s)))
    return dict_state(r.result) == exp


def post_s2d_result_is_new(r):
    return r.result is not r.old_settings_dict


def post_s2d_entries_are_given_settings(r):
    """every entry is one of the prior entries or one of the given setting objects"""
    for eff in r.result:
        v = r.result[eff]
        found = False
        for s in r.settings:
            if s is v:
                found = True
        for e2 in r.old_settings_dict:
            if r.old_settings_dict[e2] is v:
                found = True
        if not found:
            return False
    return True


# ------------------------------------------------------------------------------------------ J1
def seq_codes(r):
    """the integer tokens of the input sequence (a non-numeric token is dropped, an empty one is 0)"""
    seq = r.old_sequence
    if isinstance(seq, str):
        return codes_of_text(seq)
    out = []
    for x in seq:
        if isinstance(x, int):
            out.append(x)
        else:
            p = x.strip()
            if p == '':
                out.append(0)
            else:
                try:
                    out.append(int(p))
                except ValueError:
                    pass
    return out


def post_parse_terminal_agreement(r):
    """add_erroneous=False: reducing the returned settings in order gives the state a terminal reaches on the code list"""
    if r.add_erroneous:
        return True
    return eff_state(r.result) == term_apply(term_default(), seq_codes(r))


def post_parse_all_tokens_kept(r):
    """add_erroneous=True: every integer token of the input appears, in order, in the returned settings"""
    if not r.add_erroneous:
        return True
    got = []
    for s in r.result:
        for c in codes_of_text(str(s)):
            got.append(c)
    exp = seq_codes(r)
    if len(exp) == 0:
        return got == [0]
    return got == exp


def post_parse_empty_is_reset(r):
    if len(seq_codes(r)) == 0 and (isinstance(r.old_sequence, str) and r.old_sequence == '' or len(r.old_sequence) == 0):
        return len(r.result) == 1 and str(r.result[0]) == '0'
    return True


def post_parse_groups_are_complete(r):
    """add_erroneous=False: an extended-colour introducer is returned only as part of a complete group, and every
    returned setting is a single code or one complete group (nothing is glued together or split)"""
    if r.add_erroneous:
        return True
    for s in r.result:
        cs = codes_of_text(str(s))
        h = cs[0]
        if h == 38 or h == 48 or h == 58:
            if not ((len(cs) == 3 and cs[1] == 5) or (len(cs) == 5 and cs[1] == 2)):
                return False
        elif len(cs) != 1:
            return False
    return True


# ------------------------------------------------------------------------------------------ C02: parsing input text
def input_text_without_sgr(s):
    """the input with exactly the SGR sequences (ESC [ parameters m) removed; everything else verbatim"""
    return csi_tokens(s, False, 'm')[0]


def input_state_at(s, k):
    """state a conforming terminal is in when it prints the k-th remaining character of s (from its default state)"""
    st = term_default()
    for idx, params, term in csi_tokens(s, False, 'm')[1]:
        if idx <= k:
            if params == '':
                st = term_default()
            else:
                st = term_apply(st, codes_of_text(params))
    return st


def post_parse_text(r):
    return r.self._s == input_text_without_sgr(r.old_s)


def parse_k_range(r):
    return (0, len(r.self._s))


def post_parse_char_state(r):
    """each character reports the effective style a terminal would give it after the preceding sequences"""
    return eff_state(view(r.self, r.k)) == input_state_at(r.old_s, r.k)


def post_parse_plain_unformatted(r):
    """text without SGR sequences is kept unchanged and unformatted"""
    if len(csi_tokens(r.old_s, False, 'm')[1]) == 0:
        return r.self._s == r.old_s and len(r.self._fmts) == 0
    return True
