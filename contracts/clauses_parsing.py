"""Contract clauses for ansi_parsing.py (C19: B1-B3, C18: J1, S2D) and for parsing input text (C02)."""
from spec import *  # noqa: F401,F403


# ------------------------------------------------------------------------------------------ B1 / B2
def post_tokens_text(r):
    e = csi_tokens(r.old_s, r.allow_empty_terminator, r.acceptable_terminators)
    return r.self._s == e[0]


def post_tokens_sequences(r):
    """sequences maps each removal point to the removed sequences (parameters, final byte) in order"""
    e = csi_tokens(r.old_s, r.allow_empty_terminator, r.acceptable_terminators)
    exp = {}
    for idx, params, term in e[1]:
        if idx not in exp:
            exp[idx] = []
        exp[idx].append((params, term))
    got = r.self.sequences
    if len(got) != len(exp):
        return False
    for idx in exp:
        if idx not in got:
            return False
        lst = got[idx]
        if len(lst) != len(exp[idx]):
            return False
        i = 0
        for p, t in exp[idx]:
            if lst[i].sequence != p or lst[i].terminator != t:
                return False
            i += 1
    return True


def post_formatted_is_input(r):
    """re-inserting the sequences reproduces the parsed string exactly"""
    return r.result == r.original


# ------------------------------------------------------------------------------------------ B3: helpers
def post_helper_1(r):
    return r.result == '\x1b[' + str(r.n) + r.final


def post_helper_2(r):
    return r.result == '\x1b[' + str(r.row) + ';' + str(r.column) + r.final


def post_helper_parses_as_one_sequence(r):
    """the parser recognises the helper's output as exactly one sequence with the documented final byte, empty text"""
    if r.self._s != '':
        return False
    if len(r.self.sequences) != 1 or 0 not in r.self.sequences:
        return False
    lst = r.self.sequences[0]
    if len(lst) != 1:
        return False
    return lst[0].terminator == r.final and lst[0].sequence == r.params
