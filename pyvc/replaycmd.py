"""./check --replay <file>: re-derive the counter-model of a recorded refutation from the current tree and run the
real function on it natively.  Prints REPRODUCED / NOT-REPRODUCED."""
import json

from . import harness


def main(path):
    with open(path) as f:
        rec = json.load(f)
    gid, item, name = rec['group'], rec['item'], rec['obligation']
    cfg = {'tier': 'thorough', 'seed': 0, 'cross_rate': 10 ** 9, 'max_replays': 10 ** 6}
    res = harness.run_item(gid, item, cfg)
    if res['error']:
        print('ENGINE-ERROR', res['error'])
        return 3
    hits = [r for r in res['refuted'] if r['name'] == name]
    print('replay of %s / %s on item %s (source tree %s)' % (gid, name, json.dumps(item)[:120], harness.env().src))
    if not hits:
        print('NOT-REPRODUCED: the obligation is discharged on the current tree (%d obligations, %d discharged)'
              % (res['obligations'], res['discharged']))
        return 0
    rep = [h for h in hits if (h.get('replay') or {}).get('status') == 'REPRODUCED']
    h = (rep or hits)[0]
    rp = h.get('replay') or {}
    print('model:', json.dumps(h['model']))
    print('native pre-state:', json.dumps(rp.get('pre'))[:1500])
    print('native result:', json.dumps(rp.get('result'))[:800], 'exception:', rp.get('exception'))
    print('failed clauses:', rp.get('failed_clauses'))
    print(rp.get('status', 'NOT-REPRODUCED'))
    return 1 if rep else 0
