"""Abstract AnsiString values for client-level (modular, unbounded) proofs - DESIGN.md section 4, second level.

A client-level function uses an AnsiString only through other methods.  Its receiver is then given an
*abstract table*: an element of an uninterpreted sort Tbl, observed only through
    vt(t, i)   the ordered list of setting texts on character i   (uninterpreted sort VList)
    wfp(t, n)  the representation invariant for a text of length n
Callee contracts become uninterpreted table transformers plus universally quantified axioms (the callee's
postcondition).  Every axiom names the obligation group that establishes it on the real code; `check`
refuses to count a property as held unless that group is discharged in the same run.
"""
import z3

from . import sym
from .sym import HeapObj, PObj, PList, PDict, Unsupported, PyExc, Z, ctx, i_cmp, i_add, i_sub, b_and, is_z3

TBL = z3.DeclareSort('Tbl')
VL = z3.DeclareSort('VList')
ANY = z3.DeclareSort('AnyVal')
I = sym.IntSort
B = sym.BoolSort

VT = z3.Function('vt', TBL, I, VL)
WFP = z3.Function('wfp', TBL, I, B)
NIL = z3.Const('vl_nil', VL)
EMPTY = z3.Const('tbl_empty', TBL)

T_SLICE = z3.Function('tbl_slice', TBL, I, I, TBL)            # __getitem__        (group G2)
T_CAT = z3.Function('tbl_cat', TBL, I, TBL, TBL)              # __iadd__           (group A1)
T_APPLY = z3.Function('tbl_apply', TBL, I, ANY, I, I, B, TBL)  # apply_formatting   (group F3)
T_REMOVE = z3.Function('tbl_remove', TBL, I, ANY, I, I, TBL)  # remove_formatting  (group M2)
T_SHIFT = z3.Function('tbl_shift', TBL, I, B, TBL)            # _shift_settings_idx (group W1)
T_FILL = z3.Function('tbl_fill', VL, I, TBL)                  # AnsiString(text, s.ansi_settings_at(i))  (groups N1, F2, F3)


class AbsTbl(HeapObj):
    """heap object holding an abstract table term (two objects may hold equal terms: equal tables, distinct dicts)"""
    __slots__ = ('term',)

    def __init__(self, term):
        self._init()
        self.term = term

    def __repr__(self):
        return 'AbsTbl#%d(%s)' % (self.aid, self.term)


class AbsSettings:
    """the list of setting objects ansi_settings_at returns on an abstract table, known by its texts only"""
    __slots__ = ('term',)

    def __init__(self, term):
        self.term = term

    def __repr__(self):
        return 'AbsSettings(%s)' % self.term


class AbsVal:
    """a value of an uninterpreted sort (list of setting texts)"""
    __slots__ = ('term',)

    def __init__(self, term):
        self.term = term

    def __repr__(self):
        return 'AbsVal(%s)' % self.term


def axioms():
    t, ta, tb = z3.Consts('t ta tb', TBL)
    lo, hi, k, n, na, nb = z3.Ints('lo hi k n na nb')
    s = z3.Const('s', ANY)
    top = z3.Bool('top')
    ax = []
    # G2: a slice reports on its k-th character what the source reports on character lo+k, and is well formed
    ax.append(z3.ForAll([t, lo, hi, k], z3.Implies(z3.And(0 <= lo, lo <= hi, 0 <= k, k < hi - lo),
                                                  VT(T_SLICE(t, lo, hi), k) == VT(t, lo + k)),
                        patterns=[VT(T_SLICE(t, lo, hi), k)]))
    # A1: concatenation keeps each operand's settings
    ax.append(z3.ForAll([ta, na, tb, k], z3.Implies(z3.And(0 <= k, k < na), VT(T_CAT(ta, na, tb), k) == VT(ta, k)),
                        patterns=[VT(T_CAT(ta, na, tb), k)]))
    ax.append(z3.ForAll([ta, na, tb, k], z3.Implies(k >= na, VT(T_CAT(ta, na, tb), k) == VT(tb, k - na)),
                        patterns=[VT(T_CAT(ta, na, tb), k)]))
    # the empty table
    ax.append(z3.ForAll([k], VT(EMPTY, k) == NIL, patterns=[VT(EMPTY, k)]))
    # F3 / M2: outside the range nothing changes, the invariant is kept
    ax.append(z3.ForAll([t, n, s, lo, hi, top, k], z3.Implies(z3.Or(k < lo, k >= hi),
                                                             VT(T_APPLY(t, n, s, lo, hi, top), k) == VT(t, k)),
                        patterns=[VT(T_APPLY(t, n, s, lo, hi, top), k)]))
    ax.append(z3.ForAll([t, n, s, lo, hi, k], z3.Implies(z3.Or(k < lo, k >= hi),
                                                        VT(T_REMOVE(t, n, s, lo, hi), k) == VT(t, k)),
                        patterns=[VT(T_REMOVE(t, n, s, lo, hi), k)]))
    # N1 + F2 + F3: a text built with the settings another string reports at one index carries them on every character
    vl = z3.Const('vl', VL)
    ax.append(z3.ForAll([vl, n, k], z3.Implies(z3.And(0 <= k, k < n), VT(T_FILL(vl, n), k) == vl),
                        patterns=[VT(T_FILL(vl, n), k)]))
    return ax


_AX = None


def install(c):
    """add the callee-contract axioms to the path's solver (once)"""
    global _AX
    if _AX is None:
        _AX = axioms()
    c.axiom_once('abstract-axioms', lambda: _AX)
    c.no_crosscheck = True  # abstract states are concretised up to observation only


def wf_fact(c, premise_terms, new_term, new_len):
    """ground instance of a callee's "invariant preserved" postcondition: premises -> wfp(new, new_len)"""
    prem = [WFP(t, Z(n)) if t is not EMPTY else z3.BoolVal(True) for t, n in premise_terms]
    c.assume(z3.Implies(z3.And(*prem) if prem else z3.BoolVal(True), WFP(new_term, Z(new_len))))


def empty_wf(c, n):
    c.assume(WFP(EMPTY, Z(n)))


def any_term(v):
    """a term of sort AnyVal standing for an engine value that is only passed through"""
    c = ctx()
    if v is None:
        return z3.Const('any_none', ANY)
    if isinstance(v, bool):
        return z3.Const('any_bool_%s' % v, ANY)
    if isinstance(v, int):
        return z3.Function('any_int', I, ANY)(z3.IntVal(v))
    if is_z3(v) and sym.is_int(v):
        return z3.Function('any_int', I, ANY)(Z(v))
    if isinstance(v, tuple):
        f = z3.Function('any_tuple%d' % len(v), *([ANY] * len(v) + [ANY]))
        return f(*[any_term(x) for x in v]) if v else z3.Const('any_tuple0', ANY)
    if isinstance(v, str):
        key = ('any_str', v)
        if key not in c.cache:
            c.cache[key] = z3.Const('any_str_%d' % len(c.cache), ANY)
        return c.cache[key]
    key = ('any_obj', id(v))
    if key not in c.cache:
        c.cache[key] = (z3.Const('any_obj_%d' % len(c.cache), ANY), v)
    return c.cache[key][0]


def fresh_table(c, name):
    t = z3.Const(name, TBL)
    return AbsTbl(t)


def abstract_ansistring(c, tag, text=None, wf=True, min_len=0):
    """an AnsiString with an abstract table, assumed well formed"""
    install(c)
    T = text if text is not None else c.opaque_text('T' + tag, min_len)
    tb = fresh_table(c, 'tbl_' + tag)
    obj = PObj('AnsiString', {'_fmts': tb, '_s': sym.s_opaque(T)})
    if not hasattr(c, 'abs_tables'):
        c.abs_tables = []
    c.abs_tables.append(tb)
    if wf:
        c.assume(WFP(tb.term, Z(T.len)))
    return obj, {'text': T, 'tbl': tb}


def table_term(v):
    """the table term of an AnsiString engine object (abstract table, or the empty concrete dict)"""
    f = v.attrs['_fmts']
    if isinstance(f, AbsTbl):
        return f.term
    if isinstance(f, PDict) and not f.keys:
        return EMPTY
    return None


def is_abstract(v):
    return isinstance(v, PObj) and v.cls == 'AnsiString' and isinstance(v.attrs.get('_fmts'), AbsTbl)
