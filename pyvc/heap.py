"""Snapshots, structural comparison and reachability over engine heap values (DESIGN.md 2.4)."""
import z3
from . import sym
from .sym import PList, PDict, PObj, PSlice, EnumVal, Rope, is_z3, is_int, is_bool, is_str, b_and, i_cmp, simp, Z

IMMUTABLE_CLASSES = ('AnsiSetting',)


def snapshot(v, memo=None, keep=IMMUTABLE_CLASSES):
    """Deep copy of the mutable structure reachable from v; objects of the `keep` classes (immutable
    setting objects) are shared so that identity can still be compared across the snapshot."""
    if memo is None:
        memo = {}
    from . import abstract as _ab
    if isinstance(v, _ab.AbsTbl):
        if id(v) not in memo:
            memo[id(v)] = _ab.AbsTbl(v.term)
        return memo[id(v)]
    if isinstance(v, (PList, PDict, PObj)):
        if id(v) in memo:
            return memo[id(v)]
        if isinstance(v, PObj) and v.cls in keep:
            return v
        if isinstance(v, PList):
            n = PList()
            memo[id(v)] = n
            n.items = [snapshot(x, memo, keep) for x in v.items]
            return n
        if isinstance(v, PDict):
            n = PDict()
            memo[id(v)] = n
            n.keys = [snapshot(x, memo, keep) for x in v.keys]
            n.vals = [snapshot(x, memo, keep) for x in v.vals]
            return n
        n = PObj(v.cls)
        memo[id(v)] = n
        n.attrs = {k: snapshot(x, memo, keep) for k, x in v.attrs.items()}
        return n
    if isinstance(v, tuple):
        return tuple(snapshot(x, memo, keep) for x in v)
    return v


def reachable(v, out=None, keep=IMMUTABLE_CLASSES):
    """ids of the mutable heap objects reachable from v -> object"""
    if out is None:
        out = {}
    from . import abstract as _ab
    if isinstance(v, _ab.AbsTbl):
        out[id(v)] = v
        return out
    if isinstance(v, (PList, PDict, PObj)):
        if id(v) in out:
            return out
        if isinstance(v, PObj) and v.cls in keep:
            return out
        out[id(v)] = v
        if isinstance(v, PList):
            for x in v.items:
                reachable(x, out, keep)
        elif isinstance(v, PDict):
            for x in v.keys:
                reachable(x, out, keep)
            for x in v.vals:
                reachable(x, out, keep)
        else:
            for x in v.attrs.values():
                reachable(x, out, keep)
    elif isinstance(v, tuple):
        for x in v:
            reachable(x, out, keep)
    return out


def struct_eq(a, b, memo=None, ignore_attrs=('_valid', '_parsable')):
    """Condition under which two heap structures are equal as *structures*: same shapes, scalars equal,
    immutable setting objects identical, dict keys matched by value (order-insensitive).
    Returns bool | z3 Bool."""
    if memo is None:
        memo = {}
    key = (id(a), id(b))
    if key in memo:
        return True
    if isinstance(a, (float, bytes)) or isinstance(b, (float, bytes)):
        return type(a) is type(b) and a == b
    if isinstance(a, PObj) and isinstance(b, PObj):
        if a.cls in IMMUTABLE_CLASSES or b.cls in IMMUTABLE_CLASSES:
            return a is b
        if a.cls != b.cls:
            return False
        memo[key] = True
        ka = [k for k in a.attrs if k not in ignore_attrs]
        kb = [k for k in b.attrs if k not in ignore_attrs]
        if sorted(ka) != sorted(kb):
            return False
        return b_and(*[struct_eq(a.attrs[k], b.attrs[k], memo, ignore_attrs) for k in ka])
    if isinstance(a, PList) and isinstance(b, PList):
        memo[key] = True
        if len(a.items) != len(b.items):
            return False
        return b_and(*[struct_eq(x, y, memo, ignore_attrs) for x, y in zip(a.items, b.items)])
    if isinstance(a, tuple) and isinstance(b, tuple):
        if len(a) != len(b):
            return False
        return b_and(*[struct_eq(x, y, memo, ignore_attrs) for x, y in zip(a, b)])
    if isinstance(a, PDict) and isinstance(b, PDict):
        memo[key] = True
        if len(a.keys) != len(b.keys):
            return False
        # keys pairwise distinct inside each dict: match each key of a with the key of b that equals it
        conds = []
        for k, v in zip(a.keys, a.vals):
            alts = []
            for k2, v2 in zip(b.keys, b.vals):
                ke = struct_eq(k, k2, memo, ignore_attrs)
                if ke is False:
                    continue
                alts.append(b_and(ke, struct_eq(v, v2, memo, ignore_attrs)))
            conds.append(sym.b_or(*alts))
        return b_and(*conds)
    from . import abstract as _ab
    if isinstance(a, _ab.AbsTbl) and isinstance(b, _ab.AbsTbl):
        return True if a.term.eq(b.term) else (a.term == b.term)
    if a is None or b is None:
        return a is None and b is None
    if is_bool(a) and is_bool(b):
        if isinstance(a, bool) and isinstance(b, bool):
            return a == b
        return Z(a) == Z(b)
    if is_int(a) and is_int(b) and not isinstance(a, bool) and not isinstance(b, bool):
        return i_cmp('==', a, b)
    if is_str(a) and is_str(b):
        r = sym.s_eq(a, b)
        if isinstance(r, sym.Approx):
            return r.cond
        return r
    if isinstance(a, EnumVal) and isinstance(b, EnumVal):
        return a.ecls == b.ecls and i_cmp('==', a.index, b.index)
    if isinstance(a, PSlice) and isinstance(b, PSlice):
        return b_and(struct_eq(a.start, b.start), struct_eq(a.stop, b.stop), struct_eq(a.step, b.step))
    if type(a).__name__ == 'ClassRef' and type(b).__name__ == 'ClassRef':
        return a.name == b.name
    if type(a).__name__ in ('AbsAny', 'UStr', 'AbsVal') and type(a) is type(b):
        return True if a.term.eq(b.term) else (a.term == b.term)
    return False


def fresh_since(v, alloc_mark, keep=IMMUTABLE_CLASSES):
    """every mutable object reachable from v was allocated after `alloc_mark`"""
    return all(o.aid > alloc_mark for o in reachable(v, None, keep).values())


def disjoint(v, w):
    """no mutable object reachable from both"""
    rv = reachable(v)
    rw = reachable(w)
    return not (set(rv) & set(rw))
