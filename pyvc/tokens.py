"""Tokenisation of *structured* symbolic strings (texts of symbolic length interleaved with literal control sequences
whose parameters are symbolic numbers): the engine twin of spec.csi_tokens, also used as the call-by-contract summary
of ParsedAnsiControlSequenceString.__init__ (contract established on character level by group B1)."""
import z3

from . import sym
from .sym import Unsupported, PList, PDict, PObj, ctx, i_cmp, i_add, b_and, b_or, is_z3


def _units(s):
    us = []
    for a in sym.atoms_of(s):
        if a[0] == 'lit':
            us.extend(a[1])
        else:
            us.append(a)
    return us


def _rope(units):
    return sym.mk_rope([('lit', u) if isinstance(u, str) else u for u in units])


def rope_tokenize(s, allow_unterminated, acceptable):
    """(text, [(index, params, terminator)]) as spec.csi_tokens defines it, for a rope."""
    c = ctx()
    us = _units(s)
    n = len(us)

    def is_esc(u):
        if isinstance(u, str):
            return u == '\x1b'
        if u[0] == 'chr':
            return c.truth(i_cmp('==', u[1], 27))
        if u[0] == 'opq':
            if not getattr(u[1], 'escfree', False):
                if c.truth(i_cmp('==', sym.i_sub(u[3], u[2]), 0)):
                    return False
                raise Unsupported('text not known to be free of ESC')
            return False
        if u[0] == 'rep':
            if c.truth(b_or(i_cmp('!=', u[1], 27), i_cmp('<=', u[2], 0))):
                return False
            raise Unsupported('repeated ESC')
        return False

    def is_open_bracket(u):
        if isinstance(u, str):
            return u == '['
        if u[0] == 'chr':
            return c.truth(i_cmp('==', u[1], 91))
        if u[0] == 'istr':
            return False
        if u[0] == 'opq' or u[0] == 'rep':
            if c.truth(i_cmp('==', sym._atom_len(u), 0)):
                return None  # empty atom: look further
            raise Unsupported('ESC directly followed by text of unknown content')
        return False

    def final_of(u):
        """True/False for a unit inside a parameter run; unsupported for texts of unknown content"""
        if isinstance(u, str):
            return 0x40 <= ord(u) <= 0x7e
        if u[0] == 'istr':
            return False
        if u[0] == 'chr':
            return c.truth(b_and(i_cmp('>=', u[1], 0x40), i_cmp('<=', u[1], 0x7e)))
        if c.truth(i_cmp('==', sym._atom_len(u), 0)):
            return False
        raise Unsupported('text of unknown content inside a control sequence candidate')

    text = []
    text_len = 0
    seqs = []
    i = 0
    while i < n:
        u = us[i]
        taken = False
        if is_esc(u):
            j = i + 1
            ob = None
            while j < n:
                ob = is_open_bracket(us[j])
                if ob is None:
                    j += 1
                    continue
                break
            if j < n and ob:
                p = j + 1
                while p < n and not final_of(us[p]):
                    p += 1
                if p < n:
                    term = us[p]
                    if not isinstance(term, str):
                        # symbolic final byte: make it concrete enough to compare with `acceptable`
                        term = _rope([term])
                    end = p + 1
                else:
                    term = ''
                    end = n
                ok_term = (not isinstance(term, str)) or term != '' or c.truth(allow_unterminated if not isinstance(allow_unterminated, bool) else allow_unterminated)
                if isinstance(term, str) and term == '':
                    ok_term = allow_unterminated if isinstance(allow_unterminated, bool) else c.truth(allow_unterminated)
                if acceptable is None:
                    ok_acc = True
                else:
                    from . import builtins_model as bm
                    ok_acc = c.truth(bm.v_in(bm.INTERP, term, acceptable))
                if ok_term and ok_acc:
                    seqs.append((text_len, _rope(us[j + 1:p]), term))
                    i = end
                    taken = True
        if not taken:
            text.append(u)
            text_len = i_add(text_len, 1 if isinstance(u, str) else sym._atom_len(u))
            i += 1
    return _rope(text), seqs


def twin_csi_tokens(interp, func, args, kwargs):
    s, allow, acceptable = args
    if isinstance(s, str):
        return NotImplemented
    if sym.s_chars(s) is not None and not any(a[0] == 'istr' for a in sym.atoms_of(s)):
        return NotImplemented  # plain characters: interpret the specification itself
    text, seqs = rope_tokenize(s, allow, acceptable)
    return (text, PList([(idx, params, term) for idx, params, term in seqs]))


def summ_parsed_init(interp, func, args, kwargs):
    """Contract B1: ParsedAnsiControlSequenceString(s, allow, acceptable) holds exactly the tokenisation csi_tokens
    describes.  Used for inputs that contain texts of symbolic length; plain character strings run the real code."""
    names = ['self', 's', 'allow_empty_terminator', 'acceptable_terminators']
    vals = dict(zip(names, args))
    vals.update(kwargs)
    s = vals['s']
    if isinstance(s, str) or not sym.is_str(s):
        return NotImplemented
    if sym.s_chars(s) is not None:
        return NotImplemented
    allow = vals.get('allow_empty_terminator', True)
    acceptable = vals.get('acceptable_terminators', None)
    text, seqs = rope_tokenize(s, allow, acceptable)
    self_ = vals['self']
    self_.attrs['_s'] = text
    d = PDict()
    for idx, params, term in seqs:
        cs = PObj('AnsiControlSequence', {'sequence': params, 'terminator': term})
        from . import builtins_model as bm
        j = bm.dict_find(interp, d, idx)
        if j < 0:
            d.keys.append(idx)
            d.vals.append(PList([cs]))
        else:
            d.vals[j].items.append(cs)
    self_.attrs['sequences'] = d
    return None
