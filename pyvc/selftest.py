"""Engine self-test run by MANIFEST.setup_cmd: the pipeline must be able to fail (canaries) and to agree with
CPython on a few fixed programs."""
import sys

from . import harness, explore, sym
from .sym import PObj, PDict


def main():
    envr = harness.env()
    I = envr.interp
    fails = []

    # canary 1: a false postcondition on a real function must be refuted
    def t1(c):
        T = c.opaque_text('T')
        s = PObj('AnsiString', {'_fmts': PDict(), '_s': sym.s_opaque(T)})
        v = c.named_int('v')
        r = I.call_name('AnsiString._slice_val_to_idx', s, v, 0)
        c.prove('canary-false', sym.i_cmp('>', r, T.len))
        c.prove('true-bound', sym.i_cmp('<=', r, T.len))
    res = explore.explore(t1)
    st = [o.status for r in res for o in r.obligations if o.name == 'canary-false']
    if 'refuted' not in st:
        fails.append('canary postcondition was not refuted: %r' % st)
    st = [o.status for r in res for o in r.obligations if o.name == 'true-bound']
    if not st or any(x != 'discharged' for x in st):
        fails.append('true bound not discharged: %r' % st)

    # canary 2: infeasible precondition yields no obligations (vacuity must be visible)
    def t2(c):
        v = c.named_int('v')
        c.assume(sym.i_cmp('<', v, 0))
        c.assume(sym.i_cmp('>', v, 0))
        if not c.feasible():
            raise sym.Infeasible()
        c.prove('never', False)
    res = explore.explore(t2)
    if any(r.obligations for r in res):
        fails.append('obligation recorded under an unsatisfiable precondition')

    # concrete agreement with CPython
    for text in ('', 'abc', '\x1b[1mab\x1b[m', '\x1b[38;5;2;1mx', 'a\x1b[5Ab'):
        def t3(c):
            return I.instantiate('AnsiString', [text], {})
        res = explore.explore(t3)
        nat = envr.program.modules['ansi_string'].native.AnsiString(text)
        ok = [r for r in res if r.status == 'ok']
        if len(ok) != 1:
            fails.append('constructor on %r: %r' % (text, [(r.status, r.detail) for r in res]))
            continue
        from .concretize import Concretizer, native_equal
        import z3
        sol = z3.Solver()
        sol.check()
        got = Concretizer(envr.program, sol.model()).val(ok[0].extra)
        d = native_equal(nat, got)
        if d:
            fails.append('constructor on %r differs from CPython: %s' % (text, d))
    if fails:
        for f in fails:
            print('SELFTEST-FAIL', f)
        return 3
    print('selftest ok')
    return 0
