"""Engine self-test run by MANIFEST.setup_cmd: the pipeline must be able to fail (canaries) and to agree with
CPython on a few fixed programs."""
import sys

from . import harness, explore, sym
from .sym import PObj, PDict


def main():
    envr = harness.env()
    I = envr.interp
    fails = []

    # canary 1: a false postcondition on a real function must be refuted
    def t1(c):
        T = c.opaque_text('T')
        s = PObj('AnsiString', {'_fmts': PDict(), '_s': sym.s_opaque(T)})
        v = c.named_int('v')
        r = I.call_name('AnsiString._slice_val_to_idx', s, v, 0)
        c.prove('canary-false', sym.i_cmp('>', r, T.len))
        c.prove('true-bound', sym.i_cmp('<=', r, T.len))
    res = explore.explore(t1)
    st = [o.status for r in res for o in r.obligations if o.name == 'canary-false']
    if 'refuted' not in st:
        fails.append('canary postcondition was not refuted: %r' % st)
    st = [o.status for r in res for o in r.obligations if o.name == 'true-bound']
    if not st or any(x != 'discharged' for x in st):
        fails.append('true bound not discharged: %r' % st)

    # canary 2: infeasible precondition yields no obligations (vacuity must be visible)
    def t2(c):
        v = c.named_int('v')
        c.assume(sym.i_cmp('<', v, 0))
        c.assume(sym.i_cmp('>', v, 0))
        if not c.feasible():
            raise sym.Infeasible()
        c.prove('never', False)
    res = explore.explore(t2)
    if any(r.obligations for r in res):
        fails.append('obligation recorded under an unsatisfiable precondition')

    # concrete agreement with CPython
    for text in ('', 'abc', '\x1b[1mab\x1b[m', '\x1b[38;5;2;1mx', 'a\x1b[5Ab'):
        def t3(c):
            return I.instantiate('AnsiString', [text], {})
        res = explore.explore(t3)
        nat = envr.program.modules['ansi_string'].native.AnsiString(text)
        ok = [r for r in res if r.status == 'ok']
        if len(ok) != 1:
            fails.append('constructor on %r: %r' % (text, [(r.status, r.detail) for r in res]))
            continue
        from .concretize import Concretizer, native_equal
        import z3
        sol = z3.Solver()
        sol.check()
        got = Concretizer(envr.program, sol.model()).val(ok[0].extra)
        d = native_equal(nat, got)
        if d:
            fails.append('constructor on %r differs from CPython: %s' % (text, d))
    # the exact character-level models of str methods agree with CPython (symbolic characters pinned to concrete values)
    import itertools
    bm = I.bm

    def pinned(c, s, tag):
        cps = []
        for j, ch in enumerate(s):
            v = c.named_int('%s%d' % (tag, j))
            c.assume(sym.i_cmp('==', v, ord(ch)))
            cps.append(v)
        return sym.s_from_chars(cps)

    def low(v):
        if isinstance(v, sym.PList):
            return [low(x) for x in v.items]
        if sym.is_str(v):
            cps = sym.s_chars(v)
            m = sym.ctx().model()
            return ''.join(chr(m.eval(sym.Z(x), model_completion=True).as_long()) if not isinstance(x, int) else chr(x) for x in cps)
        return v

    cases = []
    for hay in ('', 'a', 'ab', 'aab', 'abab'):
        for pat in ('', 'a', 'ab', 'b'):
            for name in ('find', 'rfind', 'count', 'startswith', 'endswith'):
                for extra in ((), (1,), (3,), (5,), (-1,), (0, 2)):
                    cases.append((hay, name, (pat,) + extra))
    for hay in ('', 'a b', ' a\n', 'a\r\nb', '\x0ba\n\n', 'a  b c ', '\r\r'):
        cases.append((hay, 'splitlines', ()))
        cases.append((hay, 'splitlines', (True,)))
        cases.append((hay, 'isspace', ()))
        for mx in (-1, 0, 1):
            cases.append((hay, 'split', (None, mx)))
            cases.append((hay, 'rsplit', (None, mx)))
    for hay, name, args in cases:
        box = []

        def t4(c):
            recv = pinned(c, hay, 'h')
            a2 = [pinned(c, a, 'p') if isinstance(a, str) else a for a in args]
            if not hay and name in ('splitlines', 'split', 'rsplit', 'isspace'):
                box.append(getattr(hay, name)(*args))   # the empty text is a plain str in the engine
                return
            box.append(low(bm.str_method(I, recv, name, a2, {})))
        res = explore.explore(t4)
        want = getattr(hay, name)(*args)
        if [r.status for r in res if r.status != 'infeasible'] != ['ok'] or box[-1:] != [want]:
            fails.append('str model %r.%s%r: engine %r, CPython %r (%r)' % (hay, name, args, box[-1:], want,
                                                                          [(r.status, r.detail) for r in res][:2]))
    # the reference for str.replace written from its documentation agrees with str.replace
    rexp = envr.clause_native['replace_expected']
    for n in range(0, 5):
        for t in itertools.product('ab', repeat=n):
            t = ''.join(t)
            for old_ in ('', 'a', 'ab', 'aa', 'ba'):
                for new_ in ('', 'x', 'ab'):
                    for cnt in (-1, 0, 1, 2, 7):
                        if rexp(t, old_, new_, cnt) != t.replace(old_, new_, cnt):
                            fails.append('replace_expected(%r, %r, %r, %r) differs from str.replace' % (t, old_, new_, cnt))
    # the regex model agrees with re on fixed cases
    import re as _re
    from . import regex_model
    for pat, text in ((r'^((?:fg_)?|(?:bg_))rgb\((\d+)\)$', 'bg_rgb(12)'), (r'a+b?', 'xaab'), (r'\s*(0x)?([0-9a-f]+)', ' 0x1f'),
                      (r'[^;]+', 'ab;c'), (r'(a|ab)(c|bcd)', 'abcd')):
        box = []

        def t5(c):
            mo = regex_model.re_search(I, c, [pat, pinned(c, text, 'r')], {})
            box.append(None if mo is None else (mo.span, [low(mo.group(g)) if mo.group(g) is not None else None
                                                          for g in range(1, mo.ngroups + 1)]))
        explore.explore(t5)
        m0 = _re.search(pat, text)
        want = None if m0 is None else (m0.span(), list(m0.groups()))
        if box[-1:] != [want]:
            fails.append('regex model %r on %r: engine %r, re %r' % (pat, text, box[-1:], want))
    if fails:
        for f in fails[:20]:
            print('SELFTEST-FAIL', f)
        return 3
    print('selftest ok')
    return 0
