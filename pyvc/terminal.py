"""Engine twins of the terminal oracle of contracts/spec.py: reading a rendered *rope* the way a conforming SGR
terminal reads a string (DESIGN.md section 3, display).  The native definitions in spec.py are the specification;
these twins do the same on ropes and are cross-checked against them on replayed models."""
import z3

from . import sym
from .sym import (Unsupported, PList, ctx, i_cmp, i_add, b_and, b_or, is_z3, Rope)


def _units(out):
    """flatten a rope into units: single characters (str) for literal atoms, the atom itself otherwise"""
    us = []
    for a in sym.atoms_of(out):
        if a[0] == 'lit':
            us.extend(a[1])
        else:
            us.append(a)
    return us


def _is_final_unit(c, u):
    if isinstance(u, str):
        return 0x40 <= ord(u) <= 0x7e
    k = u[0]
    if k == 'istr':
        return False
    if k == 'chr':
        return c.truth(b_and(i_cmp('>=', u[1], 0x40), i_cmp('<=', u[1], 0x7e)))
    raise Unsupported('text of unknown content inside a control sequence')


def _tokenize(c, params):
    toks = [[]]
    for u in params:
        if isinstance(u, str) and u == ';':
            toks.append([])
        elif u[0] == 'chr' and not isinstance(u, str) and c.truth(i_cmp('==', u[1], 59)):
            toks.append([])
        else:
            toks[-1].append(u)
    codes = []
    for t in toks:
        t = [u for u in t if not (isinstance(u, str) and u == ' ')]
        if not t:
            codes.append(0)
        elif all(isinstance(u, str) and u.isdigit() for u in t):
            codes.append(int(''.join(t)))
        elif len(t) == 1 and not isinstance(t[0], str) and t[0][0] == 'istr':
            codes.append(t[0][1])
        else:
            raise Unsupported('parameter that is not a plain number in rendered output: %r' % (t,))
    return codes


def scan(out):
    """list of ('text', rope) | ('sgr', [codes]) | ('other', None) for a rendered rope"""
    c = ctx()
    if isinstance(out, sym.UStr):
        raise Unsupported('terminal reading of an uninterpreted string')
    us = _units(out)
    items = []
    cur = []
    i = 0
    n = len(us)

    def is_esc(u):
        if isinstance(u, str):
            return u == '\x1b'
        if u[0] == 'chr':
            return c.truth(i_cmp('==', u[1], 27))
        if u[0] == 'opq':
            if not getattr(u[1], 'escfree', False):
                raise Unsupported('base text not known to be free of ESC')
            return False
        return False
    while i < n:
        u = us[i]
        if is_esc(u) and i + 1 < n and isinstance(us[i + 1], str) and us[i + 1] == '[':
            j = i + 2
            while j < n and not _is_final_unit(c, us[j]):
                j += 1
            if j >= n:
                raise Unsupported('unterminated control sequence in rendered output')
            if cur:
                items.append(('text', sym.mk_rope([('lit', x) if isinstance(x, str) else x for x in cur])))
                cur = []
            term = us[j]
            if isinstance(term, str) and term == 'm':
                body = us[i + 2:j]
                items.append(('sgr', _tokenize(c, body) if body else []))
            else:
                items.append(('other', None))
            i = j + 1
        else:
            cur.append(u)
            i += 1
    if cur:
        items.append(('text', sym.mk_rope([('lit', x) if isinstance(x, str) else x for x in cur])))
    return items


def twin_state_set(interp, func, args, kwargs):
    st, g, val = args
    if not is_z3(g):
        return NotImplemented
    items = st.items if isinstance(st, PList) else list(st)
    out = []
    for i, cur in enumerate(items):
        cond = i_cmp('==', g, i)
        if cond is True:
            out.append(val)
        elif cond is False:
            out.append(cur)
        else:
            out.append(tuple(sym.b_ite(cond, v, w) for v, w in zip(val, cur)))
    return PList(out)


def twin_disp_text(interp, func, args, kwargs):
    out = args[0]
    if isinstance(out, str):
        return NotImplemented
    parts = [it[1] for it in scan(out) if it[0] == 'text']
    r = ''
    for p in parts:
        r = sym.s_concat(r, p)
    return r


def _apply(interp, st, codes):
    return interp.invoke(interp.p.funcs['term_apply'], [st, PList(list(codes))], {})


def twin_disp_state_at(interp, func, args, kwargs):
    out, t0, k = args
    if isinstance(out, str) and not is_z3(k):
        return NotImplemented
    c = ctx()
    st = t0
    pos = 0
    for kind, val in scan(out):
        if kind == 'sgr':
            st = _apply(interp, st, val)
        elif kind == 'text':
            end = i_add(pos, sym.s_len(val))
            if c.truth(i_cmp('<', k, end)):
                return st
            pos = end
    return st


def twin_disp_final(interp, func, args, kwargs):
    out, t0 = args
    if isinstance(out, str):
        return NotImplemented
    st = t0
    for kind, val in scan(out):
        if kind == 'sgr':
            st = _apply(interp, st, val)
    return st


def twin_disp_nseq(interp, func, args, kwargs):
    out = args[0]
    if isinstance(out, str):
        return NotImplemented
    return len([1 for it in scan(out) if it[0] == 'sgr'])


def twin_disp_starts_with_reset(interp, func, args, kwargs):
    out = args[0]
    if isinstance(out, str):
        return NotImplemented
    c = ctx()
    items = [it for it in scan(out)]
    # text items that are empty on this path print nothing
    while items and items[0][0] == 'text' and c.truth(i_cmp('==', sym.s_len(items[0][1]), 0)):
        items = items[1:]
    if not items or items[0][0] != 'sgr':
        return False
    codes = items[0][1]
    if not codes:
        return True
    return i_cmp('==', codes[0], 0)


TWINS = {
    'state_set': twin_state_set,
    'disp_text': twin_disp_text,
    'disp_state_at': twin_disp_state_at,
    'disp_final': twin_disp_final,
    'disp_nseq': twin_disp_nseq,
    'disp_starts_with_reset': twin_disp_starts_with_reset,
}
