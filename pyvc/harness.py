"""Obligation groups, contract tasks, native replay / cross-check and the worker pool (DESIGN.md 6)."""
import copy
import glob
import hashlib
import json
import multiprocessing as mp
import os
import sys
import time
import traceback
import types

import z3

from . import sym, interp as interp_mod, explore, heap, concretize, summaries
from .sym import Unsupported, Infeasible, PyExc, PObj, PList, PDict, PSlice
from .loopcut import PathEnd

VERIF = os.path.dirname(os.path.dirname(os.path.abspath(__file__)))
SRC = os.environ.get('PYVC_SRC', '/repo/src')


class Env:
    def __init__(self, src=None):
        self.src = src or SRC
        files = sorted(glob.glob(os.path.join(VERIF, 'contracts', 'spec*.py'))) + \
            sorted(glob.glob(os.path.join(VERIF, 'contracts', 'clauses*.py')))
        self.program = interp_mod.Program(self.src, extra_files=files)
        self.interp = interp_mod.Interp(self.program)
        self.program.class_overrides[('AnsiString', 'WITH_ASSERTIONS')] = True
        self.program.summaries.update(summaries.DEFAULT)
        self.native = self.program.native_pkg
        # the library's own self-check is switched on for native replays as well
        self.program.modules['ansi_string'].native.AnsiString.WITH_ASSERTIONS = True
        self.clause_native = {}
        for name, mi in self.program.modules.items():
            if name.startswith('spec') or name.startswith('clauses'):
                for fn in mi.funcs:
                    if fn in self.clause_native:
                        raise RuntimeError('contract function %s is defined in two contract files' % fn)
                    self.clause_native[fn] = getattr(mi.native, fn)

    def native_callable(self, qualname):
        fi = self.program.funcs[qualname]
        if fi.cls is None:
            return getattr(fi.module.native, fi.name), 'function'
        if fi.name == '__new__':
            return getattr(getattr(fi.module.native, fi.cls), fi.name), 'static'
        return getattr(getattr(fi.module.native, fi.cls), fi.name), fi.kind


_ENV = None


def env():
    global _ENV
    if _ENV is None:
        _ENV = Env()
    return _ENV


# =============================================================================================
# contract descriptions

class Clause:
    """A postcondition clause: a PyV function `fn(r)` over the call record r, optionally universally
    quantified over an integer `r.k` ranging over `range_fn(r) -> (lo, hi)` (half open)."""

    def __init__(self, name, fn, forall=None, when=None):
        self.name = name
        self.fn = fn
        self.forall = forall      # name of range function or None
        self.when = when          # 'normal' (default) | 'raise' | 'always'


class Record(dict):
    """call record shared between the symbolic and the native evaluation of clauses"""
    pass


def make_record_engine(fields):
    return PObj('__rec__', fields)


def make_record_native(fields):
    return types.SimpleNamespace(**fields)


class CallSpec:
    """What a contract task did on one path: everything needed to replay it natively."""

    def __init__(self, func, recv, args, kwargs, fields):
        self.func = func          # qualname
        self.recv = recv          # engine value or None (snapshot taken before the call)
        self.args = args
        self.kwargs = kwargs
        self.fields = fields      # extra record fields (engine values), e.g. ghost values
        self.old = None
        self.result = None
        self.exc = None
        self.post_recv = None
        self.post_args = None
        self.done = False


def run_contract(envr, c, func, recv, args, kwargs, clauses, fields=None, raises=None, frame=(), fresh=False,
                 unchanged_on_raise=True, arg_names=None, label=None):
    """Symbolically call `func` and record one obligation per clause.

    raises: dict exception type -> PyV clause name deciding whether the exception is allowed (None = always).
    frame:  names among ('self', argument names) whose reachable heap must be unchanged.
    fresh:  the result must consist of newly allocated containers only."""
    I = envr.interp
    p = envr.program
    fi = p.funcs[func]
    fields = dict(fields or {})
    static = fi.kind in ('static', 'function') or fi.name == '__new__'
    names = arg_names or [a.arg for a in fi.node.args.args][(0 if static else 1):]
    memo = {}
    old_recv = heap.snapshot(recv, memo)
    old_args = [heap.snapshot(a, memo) for a in args]
    old_kwargs = {k: heap.snapshot(v, memo) for k, v in kwargs.items()}
    spec = CallSpec(func, old_recv, old_args, old_kwargs, {k: heap.snapshot(v, memo) for k, v in fields.items()})
    c.callspec = spec
    mark = c.alloc
    call_args = ([] if static else [recv]) + list(args)
    result = None
    exc = None
    try:
        result = I.invoke(fi, call_args, dict(kwargs))
    except PyExc as e:
        exc = e
    except summaries.PreconditionFailed:
        return spec
    spec.result = result
    spec.exc = exc
    spec.post_recv = recv
    spec.post_args = list(args)
    spec.done = True
    rec_fields = dict(fields)
    rec_fields['old_self'] = old_recv
    rec_fields['self'] = recv
    for n, a, o in zip(names, args, old_args):
        rec_fields[n] = a
        rec_fields['old_' + n] = o
    for n, a in kwargs.items():
        rec_fields[n] = a
        rec_fields['old_' + n] = old_kwargs[n]
    if fi.node.args.vararg is not None:
        va = fi.node.args.vararg.arg
        rec_fields[va] = tuple(args[len(names):])
        rec_fields['old_' + va] = tuple(old_args[len(names):])
    rec_fields['result'] = result
    rec_fields['exc'] = exc.tname if exc is not None else None
    pre = label + ':' if label else ''

    def eval_clause(cl, rec):
        try:
            r = I.invoke(p.funcs[cl.fn], [rec], {})
            ok = I.truth(r)
        except PyExc as e:
            c.fail(pre + cl.name, 'clause raised %r' % (e,))
            return
        c.prove(pre + cl.name, ok)

    def run_clause(cl):
        def body():
            c.in_spec += 1
            try:
                f2 = dict(rec_fields)
                if cl.forall:
                    rec0 = make_record_engine(f2)
                    lo_hi = I.invoke(p.funcs[cl.forall], [rec0], {})
                    lo, hi = lo_hi
                    k = c.fresh_int('k')
                    c.assume(sym.i_cmp('>=', k, lo))
                    c.assume(sym.i_cmp('<', k, hi))
                    if not c.feasible():
                        raise Infeasible()
                    f2['k'] = k
                eval_clause(cl, make_record_engine(f2))
            finally:
                c.in_spec -= 1
        try:
            c.sub_explore(body)
        except Unsupported as e:
            c.obligations.append(explore.Obligation(pre + cl.name, 'undecided', detail='unsupported: %s' % e))

    if exc is not None:
        raises = raises or {}
        if exc.tname not in raises:
            c.fail(pre + 'no-exception', 'raised %s(%s)%s' % (exc.tname, exc.msg, ' [implicit]' if exc.implicit else ''))
        else:
            cond_fn = raises[exc.tname]
            if cond_fn is not None:
                run_clause(Clause('raises-%s-only-when-allowed' % exc.tname, cond_fn))
            else:
                c.prove(pre + 'raises-%s-allowed' % exc.tname, True)
        if unchanged_on_raise:
            c.prove(pre + 'unchanged-after-raise',
                    heap.struct_eq((recv, tuple(args)), (old_recv, tuple(old_args))))
        for cl in clauses:
            if cl.when in ('raise', 'always'):
                run_clause(cl)
        return spec
    for cl in clauses:
        if cl.when in (None, 'normal', 'always'):
            run_clause(cl)
    for nm in frame:
        if nm == 'self':
            c.prove(pre + 'frame:self', heap.struct_eq(recv, old_recv))
        else:
            j = names.index(nm) if nm in names else None
            if j is not None and j < len(args):
                c.prove(pre + 'frame:' + nm, heap.struct_eq(args[j], old_args[j]))
            elif nm in kwargs:
                c.prove(pre + 'frame:' + nm, heap.struct_eq(kwargs[nm], old_kwargs[nm]))
    if fresh:
        c.prove(pre + 'fresh:result', heap.fresh_since(result, mark))
    return spec


# =============================================================================================
# native side

def native_copy(v):
    """deep copy that keeps AnsiSetting objects shared (identity matters)"""
    memo = {}

    def seed(x, seen):
        if id(x) in seen:
            return
        seen.add(id(x))
        if type(x).__name__ == 'AnsiSetting':
            memo[id(x)] = x
            return
        if isinstance(x, (list, tuple)):
            for e in x:
                seed(e, seen)
        elif isinstance(x, dict):
            for k, e in x.items():
                seed(k, seen)
                seed(e, seen)
        elif hasattr(x, '__dict__'):
            for e in vars(x).values():
                seed(e, seen)
    seed(v, set())
    return copy.deepcopy(v, memo)


def native_reachable(v, out=None):
    if out is None:
        out = {}
    if type(v).__name__ == 'AnsiSetting':
        return out
    if isinstance(v, (list, dict)) or (hasattr(v, '__dict__') and not isinstance(v, type)):
        if id(v) in out:
            return out
        out[id(v)] = v
        if isinstance(v, list):
            for e in v:
                native_reachable(e, out)
        elif isinstance(v, dict):
            for e in v.values():
                native_reachable(e, out)
        else:
            for e in vars(v).values():
                native_reachable(e, out)
    elif isinstance(v, tuple):
        for e in v:
            native_reachable(e, out)
    return out


class _Timeout(Exception):
    pass


def _alarm(signum, frame):
    raise _Timeout()


def native_call(fn, kind, recv, args, kwargs, seconds=5):
    import signal
    old = signal.signal(signal.SIGALRM, _alarm)
    signal.alarm(seconds)
    try:
        if kind in ('static', 'function'):
            return fn(*args, **kwargs), None
        if kind == 'property':
            return fn.fget(recv), None
        return fn(recv, *args, **kwargs), None
    except _Timeout:
        return None, ('TIMEOUT', 'did not return within %ds' % seconds)
    except RecursionError as e:
        return None, ('RecursionError', str(e))
    except Exception as e:  # noqa
        return None, (type(e).__name__, str(e))
    finally:
        signal.alarm(0)
        signal.signal(signal.SIGALRM, old)


def replay_native(envr, spec, model, texts, clauses, raises, frame, fresh, names, unchanged_on_raise=True, native=False):
    """Rebuild the pre-state of `spec` from `model`, run the real function, evaluate the contract natively.
    With native=True the spec already holds native values."""
    if native:
        recv, args, kwargs, fields = native_copy((spec.recv, list(spec.args), dict(spec.kwargs), dict(spec.fields)))
    else:
        cz = concretize.Concretizer(envr.program, model, texts)
        recv = cz.val(spec.recv)
        args = [cz.val(a) for a in spec.args]
        kwargs = {k: cz.val(v) for k, v in spec.kwargs.items()}
        fields = {k: cz.val(v) for k, v in spec.fields.items()}
    old_recv, old_args, old_kwargs = native_copy((recv, args, kwargs))
    fn, kind = envr.native_callable(spec.func)
    pre_desc = {'self': concretize.describe(recv), 'args': [concretize.describe(a) for a in args],
                'kwargs': {k: concretize.describe(v) for k, v in kwargs.items()}}
    before = set(native_reachable((recv, args, kwargs)))
    result, exc = native_call(fn, kind, recv, args, kwargs)
    if exc is not None and exc[0] == 'TIMEOUT':
        # confirm with a long limit on a fresh copy of the pre-state: a loaded machine must not look like a hang
        recv, args, kwargs = native_copy((old_recv, old_args, old_kwargs))
        result, exc = native_call(fn, kind, recv, args, kwargs, seconds=30)
    failed = []
    rec = dict(fields)
    rec['old_self'] = old_recv
    rec['self'] = recv
    for n, a, o in zip(names, args, old_args):
        rec[n] = a
        rec['old_' + n] = o
    for n, a in kwargs.items():
        rec[n] = a
        rec['old_' + n] = old_kwargs[n]
    fi_ = envr.program.funcs[spec.func]
    if fi_.node.args.vararg is not None:
        va = fi_.node.args.vararg.arg
        rec[va] = tuple(args[len(names):])
        rec['old_' + va] = tuple(old_args[len(names):])
    rec['result'] = result
    rec['exc'] = exc[0] if exc else None

    def eval_clause(cl):
        f = envr.clause_native[cl.fn]
        try:
            if cl.forall:
                lo, hi = envr.clause_native[cl.forall](types.SimpleNamespace(**rec))
                for k in range(lo, hi):
                    r2 = dict(rec)
                    r2['k'] = k
                    if not f(types.SimpleNamespace(**r2)):
                        failed.append('%s (k=%d)' % (cl.name, k))
                        return
            else:
                if not f(types.SimpleNamespace(**rec)):
                    failed.append(cl.name)
        except Exception as e:  # noqa
            failed.append('%s (clause raised %s: %s)' % (cl.name, type(e).__name__, e))

    if exc is not None:
        raises = raises or {}
        if exc[0] == 'TIMEOUT':
            failed.append('termination (%s)' % exc[1])
        elif exc[0] not in raises:
            failed.append('no-exception (raised %s: %s)' % exc)
        elif raises[exc[0]] is not None:
            eval_clause(Clause('raises-%s-only-when-allowed' % exc[0], raises[exc[0]]))
        if unchanged_on_raise and exc[0] != 'TIMEOUT':
            d = concretize.native_equal((old_recv, old_args), (recv, args))
            if d:
                failed.append('unchanged-after-raise (%s)' % d)
        for cl in clauses:
            if cl.when in ('raise', 'always'):
                eval_clause(cl)
    else:
        for cl in clauses:
            if cl.when in (None, 'normal', 'always'):
                eval_clause(cl)
        for nm in frame:
            if nm == 'self':
                d = concretize.native_equal(old_recv, recv)
            elif nm in names and names.index(nm) < len(args):
                j = names.index(nm)
                d = concretize.native_equal(old_args[j], args[j])
            elif nm in kwargs:
                d = concretize.native_equal(old_kwargs[nm], kwargs[nm])
            else:
                d = None
            if d:
                failed.append('frame:%s (%s)' % (nm, d))
        if fresh:
            shared = set(native_reachable(result)) & before
            if shared:
                failed.append('fresh:result (result shares %d mutable object(s) with the arguments)' % len(shared))
    return {
        'pre': pre_desc,
        'result': concretize.describe(result) if exc is None else None,
        'exception': list(exc) if exc else None,
        'post_self': concretize.describe(recv),
        'failed_clauses': failed,
        'status': 'REPRODUCED' if failed else 'NOT-REPRODUCED',
        'native_result_obj': (result, exc, recv, args),
    }


def native_search(envr, run, names_of, budget_s=8.0, max_calls=4000):
    """Look for a real failing input: run the real function on the native instances of run.pool and evaluate the
    contract natively.  Returns a replay dict (status REPRODUCED) or None."""
    if run.pool is None:
        return None
    t0 = time.time()
    n = 0
    for func, recv, args, kwargs, fields in run.pool(envr):
        n += 1
        if n > max_calls or time.time() - t0 > budget_s:
            break
        spec = CallSpec(func, recv, list(args), dict(kwargs), dict(fields))
        try:
            rp = replay_native(envr, spec, None, (), run.clauses, run.raises, run.frame, run.fresh, names_of(func),
                               run.unchanged_on_raise, native=True)
        except Exception:  # noqa
            continue
        if rp['status'] == 'REPRODUCED':
            rp.pop('native_result_obj', None)
            rp['call'] = func
            rp['found_by'] = 'native search over the argument pools (%d calls)' % n
            return rp
    return None


def crosscheck(envr, spec, model, texts):
    """Engine vs CPython on one concrete instance of a path: the concretised symbolic post-state must equal
    the native post-state.  Returns None or a description of the disagreement."""
    cz = concretize.Concretizer(envr.program, model, texts)
    recv = cz.val(spec.recv)
    args = [cz.val(a) for a in spec.args]
    kwargs = {k: cz.val(v) for k, v in spec.kwargs.items()}
    fn, kind = envr.native_callable(spec.func)
    result, exc = native_call(fn, kind, recv, args, kwargs)
    if spec.exc is not None or exc is not None:
        en = spec.exc.tname if spec.exc is not None else None
        nn = exc[0] if exc else None
        if en != nn:
            return 'engine predicts exception %s, CPython gives %s (%s)' % (en, nn, exc[1] if exc else '')
        return None
    cz2 = concretize.Concretizer(envr.program, model, texts)
    cz2.text_cache = cz.text_cache
    cz2._tid_rank = cz._tid_rank
    exp_result = cz2.val(spec.result)
    exp_recv = cz2.val(spec.post_recv)
    exp_args = [cz2.val(a) for a in spec.post_args]
    d = concretize.native_equal((exp_result, exp_recv, exp_args), (result, recv, args))
    if d:
        return 'post-state differs: %s' % d
    return None


# =============================================================================================
# groups

class Group:
    def __init__(self, gid, title, props, mode, funcs, items, task, bounds='', assumes=(), note=''):
        self.gid = gid
        self.title = title
        self.props = list(props)
        self.mode = mode            # 'U' unbounded | 'B' bounded-symbolic
        self.funcs = list(funcs)
        self.items = items          # callable(tier) -> list of json-able items
        self.task = task            # callable(env, item) -> ContractRun
        self.bounds = bounds
        self.assumes = list(assumes)  # gids of groups establishing contracts assumed by summaries used here
        self.note = note


class ContractRun:
    """A task: `body(c)` plus the static description needed for native replay."""

    def __init__(self, body, clauses=(), raises=None, frame=(), fresh=False, names=None, unchanged_on_raise=True,
                 replayable=True, use=(), pool=None, cuts=None, nosumm=(), max_steps=None):
        self.body = body
        self.max_steps = max_steps  # per-path step budget (None: the configured default)
        self.clauses = list(clauses)
        self.raises = raises
        self.frame = tuple(frame)
        self.fresh = fresh
        self.names = names
        self.unchanged_on_raise = unchanged_on_raise
        self.replayable = replayable
        self.use = tuple(use)     # names of modular contracts (summaries.MODULAR) assumed at call sites
        self.pool = pool          # callable(envr) -> iterable of (func, recv, args, kwargs, fields) native call instances
        self.cuts = cuts          # {(qualname, loop ordinal): loop cut} - inductive invariants used in this run
        self.nosumm = tuple(nosumm)  # default summaries switched off (the function itself is under test)


def model_dict(c, model):
    out = {}
    for v in c.consts:
        try:
            e = sym.Z(v)
            r = model.eval(e, model_completion=True)
            out[str(e)] = r.as_long() if z3.is_int_value(r) else str(r)
        except Exception:  # noqa
            pass
    return out


def _seeded_pick(seed, key, rate):
    h = hashlib.sha256(('%s|%s' % (seed, key)).encode()).digest()
    return (h[0] * 256 + h[1]) % rate == 0


def run_item(gid, item, cfg):
    """Worker entry: explore every path of one work item of a group.  Returns a picklable dict."""
    from . import registry
    t0 = time.time()
    out = {'gid': gid, 'item': item, 'paths': 0, 'obligations': 0, 'discharged': 0, 'refuted': [], 'undecided': [],
           'unsupported': [], 'nchecks': 0, 'solver_s': 0.0, 'steps': 0, 'crosschecked': 0, 'cross_fail': [],
           'by_backend': {}, 'samples': [], 'error': None, 'budget': None, 'names': {}}
    try:
        envr = env()
        g = registry.get(gid)
        run = g.task(envr, item)
        deadline = t0 + cfg.get('item_timeout', 600)
        tier = cfg.get('tier', 'quick')
        seed = cfg.get('seed', 0)
        rate = cfg.get('cross_rate', 20 if tier == 'quick' else 1)
        nrep = [0]
        searched = {}

        nrepro = [0]

        def on_path(r):
            # once several violations of this item have been reproduced on the real code the verdict cannot change:
            # stop exploring the item (keeps a broken tree from costing hours)
            if r.extra:
                nrepro[0] += sum(1 for e_ in r.extra['replays'] if (e_.get('replay') or {}).get('status') == 'REPRODUCED')
            if nrepro[0] >= cfg.get('stop_after', 12):
                out['stopped_early'] = True
                return True
            return False

        def task(c):
            c.callspec = None
            try:
                run.body(c)
            except PathEnd:
                pass  # the path ended inside a loop cut: its obligations are collected below
            except explore.StepBudget:
                # the real function did not finish on this path within the step budget: candidate non-termination.  It
                # becomes a violation only if the native call on the path's model does not return either (replay below).
                if c.callspec is None or c.callspec.done or not run.replayable:
                    raise
                c.steps = 0
                c.fail('terminates', 'symbolic execution of the call did not finish within %d steps on this path' % c.max_steps)
            except RecursionError:
                # unbounded recursion in the symbolic run: a violation only if the real call fails the same way (replay)
                if c.callspec is None or c.callspec.done or not run.replayable:
                    raise
                c.steps = 0
                c.fail('terminates', 'symbolic execution of the call exhausted the recursion limit on this path')
            spec = c.callspec
            refuted = [o for o in c.obligations if o.status == 'refuted']
            names = run.names
            if spec is not None and names is None:
                fi = envr.program.funcs[spec.func]
                names = [a.arg for a in fi.node.args.args][(0 if fi.kind in ('static', 'function') or fi.name == '__new__' else 1):]
            info = {'replays': [], 'cross': None}
            for o in refuted:
                entry = {'name': o.name, 'detail': o.detail, 'approx': bool(o.approx),
                         'model': model_dict(c, o.model) if o.model is not None else {}, 'path': o.path, 'replay': None}
                nr = getattr(c, 'native_replays', {}).get(id(o))
                if nr is not None:
                    entry['replay'] = nr
                    info['replays'].append(entry)
                    continue
                if spec is not None and run.replayable and nrep[0] < cfg.get('max_replays', 40):
                    nrep[0] += 1
                    try:
                        rp = replay_native(envr, spec, o.model, c.texts, run.clauses, run.raises, run.frame, run.fresh,
                                           names, run.unchanged_on_raise)
                        rp.pop('native_result_obj', None)
                        rp['call'] = spec.func
                        entry['replay'] = rp
                    except Unsupported as e:
                        entry['replay'] = {'status': 'REPLAY-UNSUPPORTED', 'detail': str(e)}
                    except Exception as e:  # noqa
                        entry['replay'] = {'status': 'REPLAY-ERROR', 'detail': traceback.format_exc(limit=6)}
                    if entry['replay'].get('status') != 'REPRODUCED' and run.pool is not None:
                        if 'search' not in searched:
                            def names_of(q):
                                f2 = envr.program.funcs[q]
                                return [a.arg for a in f2.node.args.args][(0 if f2.kind in ('static', 'function') or f2.name == '__new__' else 1):]
                            searched['search'] = native_search(envr, run, names_of)
                        if searched['search'] is not None:
                            entry['replay'] = dict(searched['search'])
                info['replays'].append(entry)
            if spec is not None and not refuted and run.replayable and spec.done and not getattr(c, 'no_crosscheck', False):
                key = json.dumps([item, c.decisions[:c.pos]], sort_keys=True, default=str)
                if rate <= 1 or _seeded_pick(seed, key, rate):
                    m = c.model()
                    if m is not None:
                        try:
                            d = crosscheck(envr, spec, m, c.texts)
                            info['cross'] = ('fail', d, model_dict(c, m)) if d else ('ok',)
                        except Unsupported as e:
                            info['cross'] = ('skip', str(e))
                        except Exception as e:  # noqa
                            info['cross'] = ('fail', 'cross-check crashed: ' + traceback.format_exc(limit=6), {})
            return info

        saved_summ = dict(envr.program.summaries)
        for u in run.use:
            envr.program.summaries.update(summaries.MODULAR[u])
        for q in run.nosumm:
            envr.program.summaries.pop(q, None)
        envr.interp.loop_cuts = run.cuts or {}
        try:
                results = explore.explore(task, max_paths=cfg.get('max_paths', 200000), timeout_ms=cfg.get('solver_ms', 10000),
                                      max_steps=run.max_steps or cfg.get('max_steps', 400000), deadline=deadline, on_path=on_path)
        finally:
            envr.interp.loop_cuts = {}
            envr.program.summaries.clear()
            envr.program.summaries.update(saved_summ)
        for r in results:
            if r.status == 'budget':
                out['budget'] = r.detail
                continue
            if r.status == 'infeasible':
                continue
            out['paths'] += 1
            out['nchecks'] += r.nchecks
            out['solver_s'] += r.solver_s
            out['steps'] += r.steps
            if r.status == 'unsupported':
                out['unsupported'].append({'detail': r.detail, 'path': r.decisions})
            for o in r.obligations:
                out['obligations'] += 1
                out['names'][o.name] = out['names'].get(o.name, 0) + 1
                if o.status == 'discharged':
                    out['discharged'] += 1
                    out['by_backend'][o.solver] = out['by_backend'].get(o.solver, 0) + 1
                elif o.status == 'undecided':
                    out['undecided'].append({'name': o.name, 'detail': o.detail, 'path': o.path})
            info = r.extra
            if info:
                out['refuted'].extend(info['replays'])
                if info['cross'] is not None:
                    if info['cross'][0] == 'ok':
                        out['crosschecked'] += 1
                    elif info['cross'][0] == 'fail':
                        out['cross_fail'].append({'detail': info['cross'][1], 'model': info['cross'][2],
                                                  'path': r.decisions})
            if len(out['samples']) < 2 and r.obligations:
                out['samples'].append({'item': item, 'path': r.decisions,
                                       'obligations': [[o.name, o.status, o.solver] for o in r.obligations][:12]})
    except Exception:  # noqa
        out['error'] = traceback.format_exc(limit=12)
    out['wall_s'] = time.time() - t0
    return out


def _worker(args):
    gid, item, cfg = args
    return run_item(gid, item, cfg)


def run_groups(gids, cfg, procs=None, progress=None):
    """Run all items of the given groups on a process pool.  Returns {gid: [item results]}."""
    from . import registry
    tier = cfg.get('tier', 'quick')
    work = []
    for gid in gids:
        g = registry.get(gid)
        for item in g.items(tier):
            work.append((gid, item, cfg))
    # big items first
    res = {gid: [] for gid in gids}
    procs = procs or int(os.environ.get('PYVC_PROCS', '0')) or max(1, (os.cpu_count() or 2))
    if procs == 1 or len(work) <= 1:
        for w in work:
            r = _worker(w)
            res[r['gid']].append(r)
            if progress:
                progress(r)
        return res
    ctxm = mp.get_context('fork')
    with ctxm.Pool(processes=min(procs, len(work)), maxtasksperchild=200) as pool:
        for r in pool.imap_unordered(_worker, work, chunksize=1):
            res[r['gid']].append(r)
            if progress:
                progress(r)
    return res
