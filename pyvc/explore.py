"""Replay-based path exploration (DESIGN.md 2.3).

A *task* is a python callable `task(ctx)`; it builds a symbolic pre-state, drives the interpreter and
records obligations through `ctx.prove(...)`.  Symbolic branches are resolved by `ctx.branch`, which
consults the decision prefix of the current path and, past its end, asks the solver which outcomes are
feasible, queueing the alternative.  Every path is (re-)executed from the start, so no state is copied.
"""
import time
import z3
from . import sym
from .sym import Unsupported, Infeasible, PyExc, Approx, simp, is_z3
from .loopcut import PathEnd


class Obligation:
    __slots__ = ('name', 'status', 'model', 'detail', 'approx', 'path', 'solver', 'time')

    def __init__(self, name, status, model=None, detail='', approx=False, solver='z3', t=0.0):
        self.name = name
        self.status = status  # discharged | refuted | undecided
        self.model = model
        self.detail = detail
        self.approx = approx
        self.solver = solver
        self.time = t
        self.path = None


class StepBudget(Unsupported):
    """a path did not finish within the step budget (candidate non-termination of the code under test)"""


class PathCtx:
    def __init__(self, decisions, timeout_ms=10000, max_steps=400000):
        self.decisions = list(decisions)
        self.pos = 0
        self.solver = z3.Solver()
        self.solver.set('timeout', timeout_ms)
        # quantifier-free relaxation of the path condition: used for feasibility checks (the satisfiable side of a
        # query with quantified axioms sends z3 into model-based instantiation until its timeout)
        self.qf = z3.Solver()
        self.qf.set('timeout', timeout_ms)
        self._base_scopes = 0
        self.forks = []
        self.alloc = 0
        self.nfresh = 0
        self.nchecks = 0
        self.solver_s = 0.0
        self.in_spec = 0
        self.approx_false = False
        self.obligations = []
        self.steps = 0
        self.max_steps = max_steps
        self.cache = {}        # per-path caches (lifted natives, default args, ...)
        self.axiom_keys = set()
        self.consts = []       # all fresh symbolic constants (for model printing)
        self.texts = []        # OpaqueText objects created on this path
        self.notes = {}
        self.pc_len = 0
        self.quant_ids = set()  # ast ids of quantified axioms in the solver
        self.axioms_all = []    # every axiom ever added (axioms added inside a solver scope are re-added after its pop)
        self.pending = []      # constraints not yet handed to the solver
        self.facts = {}        # ast id of a decided condition -> truth value on this path
        self.wit = None        # a model of the current path condition (or None)
        self.sub_depth = 0

    # --- allocation / fresh symbols
    def next_alloc(self):
        self.alloc += 1
        return self.alloc

    def fresh_name(self, base):
        self.nfresh += 1
        return '%s!%d' % (base, self.nfresh)

    def fresh_int(self, base, lo=None, hi=None):
        v = sym.int_const(self.fresh_name(base))
        self.consts.append(v)
        if lo is not None:
            self.assume(v >= lo)
        if hi is not None:
            self.assume(v <= hi)
        return v

    def fresh_bool(self, base):
        v = z3.Bool(self.fresh_name(base))
        self.consts.append(v)
        return v

    def named_int(self, name, lo=None, hi=None):
        v = sym.int_const(name)
        self.consts.append(v)
        if lo is not None:
            self.assume(v >= lo)
        if hi is not None:
            self.assume(v <= hi)
        return v

    def named_bool(self, name):
        v = z3.Bool(name)
        self.consts.append(v)
        return v

    def opaque_text(self, name, minlen=0):
        T = sym.OpaqueText(name)
        self.assume(T.len >= minlen)
        # value identity: equal ids => equal length (and same chars: chars only read through T)
        for U in self.texts:
            key = ('tid-axiom', T.name, U.name)
            ax = sym._CMP_CACHE.get(key)
            if ax is None:
                ax = z3.Implies(sym.Z(T.tid) == sym.Z(U.tid),
                                z3.And(sym.Z(T.len) == sym.Z(U.len), T.chars == U.chars))
                sym._CMP_CACHE[key] = ax
            self.assume(ax)
        self.texts.append(T)
        self.consts.extend([T.len, T.tid])
        return T

    def declare_esc_free(self, T):
        """precondition: the text contains no ESC character (as a flag for the rope model and as a fact about its
        character array)"""
        T.escfree = True
        j = z3.Int('j!esc')
        self.assume(z3.ForAll([j], z3.Select(T.chars, j) != 27, patterns=[z3.Select(T.chars, j)]))

    def axiom_once(self, key, mk):
        if key not in self.axiom_keys:
            self.axiom_keys.add(key)
            for a in mk():
                self.axioms_all.append(a)
                self._add_axiom(a)

    def _add_axiom(self, a):
        self.wit = None   # the witness model predates this axiom
        self.solver.add(a)
        if z3.is_quantifier(a):
            self.quant_ids.add(a.get_id())
        else:
            self.qf.add(a)

    def _dummy(self):
        if False:
            for a in ():
                pass

    def _cvc5_unsat(self, neg):
        """second back end for queries z3 leaves undecided: /usr/bin/cvc5 on the SMT-LIB dump (hard wall-clock kill)"""
        import os
        import subprocess
        import tempfile
        if not os.path.exists('/usr/bin/cvc5'):
            return False
        self._flush()
        s2 = z3.Solver()
        for a in self.solver.assertions():
            s2.add(a)
        if neg is not None:
            s2.add(neg)
        text = '(set-logic ALL)\n' + s2.to_smt2()
        fd, path = tempfile.mkstemp(suffix='.smt2', dir=os.environ.get('PYVC_TMP', '/tmp'))
        try:
            with os.fdopen(fd, 'w') as f:
                f.write(text)
            try:
                out = subprocess.run(['/usr/bin/cvc5', '--tlimit=20000', path], capture_output=True, text=True, timeout=30)
            except subprocess.TimeoutExpired:
                return False
            self.cvc5_calls = getattr(self, 'cvc5_calls', 0) + 1
            return out.stdout.strip().splitlines()[:1] == ['unsat']
        finally:
            try:
                os.unlink(path)
            except OSError:
                pass

    def _refute_without_quantifiers(self, neg):
        """The solver could not decide a query that involves quantified callee-contract axioms.  Look for a
        counter-model of the quantifier-free part only: it may violate an axiom, so it counts only if it is
        reproduced on the real code afterwards."""
        self._flush()
        s2 = z3.Solver()
        s2.set('timeout', 5000)
        for a in self.solver.assertions():
            if a.get_id() not in self.quant_ids:
                s2.add(a)
        if neg is not None:
            s2.add(neg)
        if s2.check() != z3.sat:
            return None
        # prefer an informative counter-model: longer texts, non-empty and varying per-character settings
        soft = []
        for T in self.texts:
            if getattr(T, 'kind', 'base') == 'base':
                soft.append(sym.Z(T.len) <= 8)
                soft.append(sym.Z(T.len) >= 4)
            else:
                soft.append(sym.Z(T.len) <= 3)
        for v in self.consts:
            if isinstance(v, sym.SymInt):
                soft.append(z3.And(sym.Z(v) >= -12, sym.Z(v) <= 12))
                soft.append(sym.Z(v) >= 2)
        from . import abstract as _ab
        for tb in getattr(self, 'abs_tables', []):
            for i in range(5):
                soft.append(_ab.VT(tb.term, z3.IntVal(i)) != _ab.NIL)
                soft.append(_ab.VT(tb.term, z3.IntVal(i)) != _ab.VT(tb.term, z3.IntVal(i + 1)))
        for sc in soft:
            s2.push()
            s2.add(sc)
            if s2.check() == z3.sat:
                continue  # keep it
            s2.pop()
        if s2.check() == z3.sat:
            return s2.model()
        return None

    # --- path condition
    def assume(self, cond):
        if cond is True:
            return
        if cond is False:
            raise Infeasible()
        if z3.is_quantifier(cond):
            self._flush()
            self.solver.add(cond)
            self.quant_ids.add(cond.get_id())
            self.wit = None
            return
        self._add(cond, True)

    def _add(self, cond, val):
        """add `cond == val` to the path condition and remember it as a decided fact"""
        self.pending.append(cond if val else sym.b_not(cond))
        self.pc_len += 1
        self.facts[sym.bid(cond)] = val
        if self.wit is not None:
            if self._wit_eval(cond) is not val:
                self.wit = None

    def _flush(self):
        if self.pending:
            self.solver.add(*self.pending)
            self.qf.add(*self.pending)
            self.pending = []

    def _wit_eval(self, cond):
        try:
            r = self.wit.eval(cond, model_completion=True)
        except z3.Z3Exception:
            return None
        if z3.is_true(r):
            return True
        if z3.is_false(r):
            return False
        return None

    def _known(self, cond):
        i = sym.bid(cond)
        f = self.facts.get(i)
        if f is not None:
            return f
        inner = sym._INNER.get(i)
        if inner is not None:
            f = self.facts.get(sym.bid(inner))
            if f is not None:
                return not f
        return None

    def _check(self, *extra, full=False):
        """feasibility-style check.  Unless full=True it runs on the quantifier-free relaxation when quantified
        axioms are present: `unsat` there is `unsat` of the full condition; `sat` is taken as "may be feasible"."""
        self._flush()
        t0 = time.time()
        s = self.solver if (full or not self.quant_ids) else self.qf
        r = s.check(*extra)
        self.solver_s += time.time() - t0
        self.nchecks += 1
        self._last_solver = s
        return r

    def feasible(self):
        return self._check() != z3.unsat

    def tick(self):
        self.steps += 1
        if self.steps > self.max_steps:
            raise StepBudget('step budget exceeded (%d)' % self.max_steps)

    def branch(self, cond):
        """cond: z3 Bool (not a literal).  Returns the python truth value taken on this path."""
        k = self._known(cond)
        if k is not None:
            return k
        if self.pos < len(self.decisions):
            d = self.decisions[self.pos]
            self.pos += 1
            self._add(cond, bool(d))
            return bool(d)
        # one side is decided by the witness model of the path condition, the other by the solver
        if self.wit is None:
            r = self._check()
            if r == z3.unsat:
                raise Infeasible()
            self.wit = self._last_solver.model() if r == z3.sat else None
        w = self._wit_eval(cond) if self.wit is not None else None
        other_model = None
        if w is None:
            can_t = self._check(cond) != z3.unsat
            can_f = self._check(sym.b_not(cond)) != z3.unsat
        elif w:
            can_t = True
            r = self._check(sym.b_not(cond))
            can_f = r != z3.unsat
        else:
            can_f = True
            r = self._check(cond)
            can_t = r != z3.unsat
        if can_t and can_f:
            # continue on the side the witness satisfies (keeps the witness valid); queue the other
            d = 1 if (w is None or w) else 0
            self.forks.append(self.decisions[:self.pos] + [1 - d])
        elif can_t:
            d = 1
        elif can_f:
            d = 0
        else:
            raise Infeasible()
        self.decisions.append(d)
        self.pos += 1
        self._add(cond, bool(d))
        return bool(d)

    def sub_explore(self, fn):
        """Run fn() on every feasible continuation of the current path without re-executing the prefix.
        fn must not mutate objects that existed before the call (contract clauses are pure)."""
        saved = (self.decisions, self.pos, self.forks, self.facts, self.wit)
        base = list(self.decisions[:self.pos])
        work = [[]]
        n = 0
        self.sub_depth += 1
        try:
            while work:
                prefix = work.pop()
                n += 1
                if n > 20000:
                    raise Unsupported('sub-exploration budget')
                self._flush()
                self.solver.push()
                self.qf.push()
                n_ax = len(self.axioms_all)
                self._base_scopes = self.solver.num_scopes()
                self.decisions = list(prefix)
                self.pos = 0
                self.forks = []
                self.facts = dict(saved[3])
                self.wit = saved[4]
                self.approx_false = False
                self.path_prefix = base
                try:
                    fn()
                except Infeasible:
                    pass
                finally:
                    self.pending = []
                    self.solver.pop()
                    self.qf.pop()
                    for ax in self.axioms_all[n_ax:]:
                        self._add_axiom(ax)
                    self._base_scopes = self.solver.num_scopes()
                work.extend(self.forks)
        finally:
            self.sub_depth -= 1
            self.decisions, self.pos, self.forks, self.facts, self.wit = saved
            self.path_prefix = None
        return n

    def choice(self, n):
        """Nondeterministic choice in range(n) (all alternatives are explored)."""
        if n <= 0:
            raise Infeasible()
        if self.pos < len(self.decisions):
            d = self.decisions[self.pos]
            self.pos += 1
            return d
        for alt in range(1, n):
            self.forks.append(self.decisions[:self.pos] + [alt])
        self.decisions.append(0)
        self.pos += 1
        return 0

    def truth(self, v):
        """python truth of a bool-ish engine value (bool | z3 Bool | Approx), forking if needed."""
        if isinstance(v, bool):
            return v
        if isinstance(v, Approx):
            if not self.in_spec:
                raise Unsupported('string equality not decidable by the rope model in program code')
            r = self.truth(v.cond)
            if not r:
                self.approx_false = True
            return r
        if isinstance(v, z3.BoolRef):
            return self.branch(v)
        raise Unsupported('truth(%r)' % (v,))

    # --- obligations
    def prove(self, name, cond, detail=''):
        """Record an obligation `PC => cond`."""
        t0 = time.time()
        approx = False
        if isinstance(cond, Approx):
            approx = True
            cond = cond.cond
        if cond is True and self.approx_false and self.in_spec:
            ob = Obligation(name, 'undecided', detail=detail + ' (depends on a string equality the rope model cannot decide)')
        elif cond is True:
            ob = Obligation(name, 'discharged', detail=detail, solver='syntactic')
        else:
            if cond is False:
                r = self._check(full=True)
            else:
                r = self._check(sym.b_not(cond), full=True)
            if r == z3.unsat:
                ob = Obligation(name, 'discharged', detail=detail)
            elif r == z3.sat:
                ob = Obligation(name, 'refuted', model=self._small_model(cond), detail=detail,
                                approx=approx or self.approx_false)
            elif self._cvc5_unsat(None if cond is False else sym.b_not(cond)):
                ob = Obligation(name, 'discharged', detail=detail, solver='cvc5')
            else:
                m2 = None
                if self.quant_ids:
                    m2 = self._refute_without_quantifiers(None if cond is False else sym.b_not(cond))
                if m2 is not None:
                    ob = Obligation(name, 'refuted', model=m2, approx=True,
                                    detail=detail + ' (counter-model of the quantifier-free part; callee-contract axioms '
                                    'not enforced on it)')
                else:
                    ob = Obligation(name, 'undecided', detail=detail + ' solver=' + self.solver.reason_unknown())
        ob.time = time.time() - t0
        ob.path = list(getattr(self, 'path_prefix', None) or []) + list(self.decisions[:self.pos])
        self.obligations.append(ob)
        return ob

    def record(self, name, ok, solver, detail='', native_replay=None):
        """Record the outcome of a check made outside the solver (bounded native enumeration): labelled with its back end;
        a failure carries its own native witness."""
        ob = Obligation(name, 'discharged' if ok else 'refuted', detail=detail, solver=solver)
        ob.path = list(self.decisions[:self.pos])
        ob.model = None
        self.obligations.append(ob)
        if native_replay is not None:
            if not hasattr(self, 'native_replays'):
                self.native_replays = {}
            self.native_replays[id(ob)] = native_replay
        return ob

    def _small_model(self, cond):
        """a counter-model of `PC => cond`, preferring short texts and small integers (readable replays)"""
        m = self.solver.model()
        neg = None if cond is False else sym.b_not(cond)
        if self.quant_ids:
            m2 = self._refute_without_quantifiers(neg)
            return m2 if m2 is not None else m
        self.solver.push()
        try:
            if neg is not None:
                self.solver.add(neg)
            soft = []
            for T in self.texts:
                if getattr(T, 'kind', 'base') == 'base':
                    soft.append(sym.Z(T.len) >= 3)
                soft.append(sym.Z(T.len) <= (8 if getattr(T, 'kind', 'base') == 'base' else 3))
            from . import abstract as _ab
            for tb in getattr(self, 'abs_tables', []):
                for i in range(4):
                    soft.append(_ab.VT(tb.term, z3.IntVal(i)) != _ab.NIL)
                    soft.append(_ab.VT(tb.term, z3.IntVal(i)) != _ab.VT(tb.term, z3.IntVal(i + 1)))
            for v in self.consts:
                if isinstance(v, sym.SymInt):
                    soft.append(z3.And(sym.Z(v) >= -9, sym.Z(v) <= 9))
            for sc in soft[:40]:
                self.solver.push()
                self.solver.add(sc)
                if self.solver.check() == z3.sat:
                    m = self.solver.model()
                else:
                    self.solver.pop()
        finally:
            # unwind every push made above
            while self.solver.num_scopes() > self._base_scopes:
                self.solver.pop()
        return m

    def fail(self, name, detail=''):
        return self.prove(name, False, detail)

    def model(self):
        if self._check() == z3.sat:
            return self._last_solver.model()
        return None


class PathResult:
    __slots__ = ('decisions', 'obligations', 'status', 'detail', 'nchecks', 'solver_s', 'steps', 'extra')

    def __init__(self):
        self.extra = None


def explore(task, max_paths=200000, timeout_ms=10000, max_steps=400000, deadline=None, on_path=None):
    """Run `task(ctx)` on every feasible path.  Returns list[PathResult]."""
    work = [[]]
    results = []
    while work:
        if len(results) >= max_paths or (deadline is not None and time.time() > deadline):
            r = PathResult()
            r.decisions, r.obligations, r.status = [], [], 'budget'
            r.detail = 'path/time budget exhausted with %d prefixes left' % len(work)
            r.nchecks = r.steps = 0
            r.solver_s = 0.0
            results.append(r)
            break
        prefix = work.pop()
        c = PathCtx(prefix, timeout_ms=timeout_ms, max_steps=max_steps)
        sym.set_ctx(c)
        r = PathResult()
        try:
            r.extra = task(c)
            r.status = 'ok'
            r.detail = ''
        except PathEnd:
            r.status = 'ok'
            r.detail = 'path ended inside a loop cut'
        except Infeasible:
            r.status = 'infeasible'
            r.detail = ''
        except Unsupported as e:
            r.status = 'unsupported'
            r.detail = str(e)
        except PyExc as e:
            # an exception escaping the task itself (harnesses normally catch PyExc)
            r.status = 'unsupported'
            r.detail = 'uncaught %r' % (e,)
        except RecursionError:
            r.status = 'unsupported'
            r.detail = 'recursion limit'
        finally:
            sym.set_ctx(None)
        r.decisions = list(c.decisions[:c.pos])
        r.obligations = c.obligations
        r.nchecks = c.nchecks
        r.solver_s = c.solver_s
        r.steps = c.steps
        work.extend(c.forks)
        results.append(r)
        if on_path is not None and on_path(r):
            break   # the caller has seen enough (violations established): the remaining paths are not explored
    return results
