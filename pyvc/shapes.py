"""Bounded shape enumeration for B-mode (DESIGN.md 2.3): concrete container shapes, symbolic scalars.

A *table shape* is a list of change points [(add_ids, rem_ids), ...] over abstract setting-object ids,
well-formed by construction (every stop marker refers to an object that is active, nothing is active
twice, everything is closed at the last point).  Keys, text length, setting texts stay symbolic.
"""
import itertools
from . import sym
from .sym import PList, PDict, PObj


def _ordered_subsets(items, maxlen):
    for n in range(0, min(len(items), maxlen) + 1):
        for sub in itertools.permutations(items, n):
            yield list(sub)


def table_shapes(max_points, max_objs, max_add=2, max_rem=2, reuse=True, empty_points=False, min_points=0,
                 ordered_rem_only=False):
    """Enumerate well-formed table shapes with at most max_points change points / max_objs objects."""
    out = []

    def rec(points, active, nobj, used_inactive, npts):
        i = len(points)
        last = (i == npts - 1)
        if ordered_rem_only and last:
            rem_choices = [list(active)]
        elif ordered_rem_only:
            rem_choices = []
            for n in range(0, min(len(active), max_rem) + 1):
                for sub in itertools.combinations(active, n):
                    rem_choices.append(list(sub))
        else:
            rem_choices = list(_ordered_subsets(active, max(max_rem, len(active) if last else 0)))
        for rem in rem_choices:
            if last and len(rem) != len(active):
                continue
            if not last and len(rem) > max_rem:
                continue
            act2 = [x for x in active if x not in rem]
            if last:
                if not rem and not empty_points:
                    continue
                out.append(points + [([], rem)])
                continue
            inactive = sorted(set(used_inactive) | set(rem))
            # add: sequence of fresh objects and (optionally) re-used inactive ones
            max_fresh = max_objs - nobj
            for nadd in range(0, max_add + 1):
                pools = []

                def gen_add(seq, fresh_used, avail):
                    if len(seq) == nadd:
                        pools.append((list(seq), fresh_used))
                        return
                    if fresh_used < max_fresh:
                        gen_add(seq + [nobj + fresh_used], fresh_used + 1, avail)
                    if reuse:
                        for x in avail:
                            gen_add(seq + [x], fresh_used, [y for y in avail if y != x])
                gen_add([], 0, inactive)
                for add, fresh_used in pools:
                    if not add and not rem and not empty_points:
                        continue
                    act3 = act2 + add
                    if not act3 and i < npts - 1 and not empty_points:
                        # nothing active and more points to come is fine (gap), keep it
                        pass
                    rec(points + [(add, rem)], act3, nobj + fresh_used,
                        [y for y in inactive if y not in add], npts)

    for npts in range(min_points, max_points + 1):
        if npts == 0:
            out.append([])
            continue
        if npts == 1:
            if empty_points:
                out.append([([], [])])
            continue
        rec([], [], 0, [], npts)
    # de-duplicate
    seen = set()
    uniq = []
    for s in out:
        key = repr(s)
        if key not in seen:
            seen.add(key)
            uniq.append(s)
    return uniq


def shape_nobj(shape):
    ids = set()
    for add, rem in shape:
        ids.update(add)
        ids.update(rem)
    return (max(ids) + 1) if ids else 0


def shape_has_reuse(shape):
    """some object starts more than once"""
    seen = set()
    for add, rem in shape:
        for x in add:
            if x in seen:
                return True
            seen.add(x)
    return False


def build_ansistring(c, shape, tag, settings=None, text=None, min_len=0, key_order=None):
    """Engine-level AnsiString with the given table shape.  Returns (obj, info) where info carries the
    symbolic constants (text, keys, setting objects)."""
    T = text if text is not None else c.opaque_text('T' + tag, min_len)
    n = T.len
    keys = []
    prev = None
    for i in range(len(shape)):
        k = c.named_int('k%s_%d' % (tag, i))
        if prev is None:
            c.assume(k >= 0)
        else:
            c.assume(k > prev)
        prev = k
        keys.append(k)
    if keys:
        c.assume(keys[-1] <= n)
    if settings is None:
        settings = {}
    objs = {}
    for j in range(shape_nobj(shape)):
        if j in settings:
            objs[j] = settings[j]
        else:
            S = c.opaque_text('S%s_%d' % (tag, j), 1)
            S.kind = 'setting'
            objs[j] = PObj('AnsiSetting', {'_str': sym.s_opaque(S)})
    points = []
    for add, rem in shape:
        points.append(PObj('_AnsiSettingPoint', {'add': PList([objs[x] for x in add]),
                                                  'rem': PList([objs[x] for x in rem])}))
    order = list(range(len(shape))) if key_order is None else list(key_order)
    fm = PDict([(keys[i], points[i]) for i in order])
    obj = PObj('AnsiString', {'_fmts': fm, '_s': sym.s_opaque(T)})
    return obj, {'text': T, 'keys': keys, 'objs': objs, 'points': points}
