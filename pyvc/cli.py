"""Command line driver: property -> obligation cone -> pool -> verdict, evidence, replay files."""
import argparse
import importlib.util
import json
import os
import subprocess
import sys
import time

from . import harness, registry

VERIF = harness.VERIF


def load_properties():
    path = os.path.join(VERIF, 'contracts', 'properties.py')
    spec = importlib.util.spec_from_file_location('pyvc_properties', path)
    mod = importlib.util.module_from_spec(spec)
    spec.loader.exec_module(mod)
    return mod


def load_json(path, default):
    try:
        with open(path) as f:
            return json.load(f)
    except FileNotFoundError:
        return default


def summarize_group(g, results):
    s = {'gid': g.gid, 'title': g.title, 'mode': g.mode, 'bounds': g.bounds, 'functions': g.funcs, 'items': len(results),
         'paths': 0, 'obligations': 0, 'discharged': 0, 'refuted': [], 'undecided': [], 'unsupported': [], 'errors': [],
         'cross_ok': 0, 'cross_fail': [], 'solver_s': 0.0, 'nchecks': 0, 'by_backend': {}, 'samples': [], 'budget': [],
         'wall_s': 0.0, 'names': {}}
    for r in results:
        s['paths'] += r['paths']
        s['obligations'] += r['obligations']
        s['discharged'] += r['discharged']
        s['solver_s'] += r['solver_s']
        s['nchecks'] += r['nchecks']
        s['wall_s'] += r.get('wall_s', 0.0)
        s['cross_ok'] += r['crosschecked']
        for k, v in r['by_backend'].items():
            s['by_backend'][k] = s['by_backend'].get(k, 0) + v
        for k, v in r['names'].items():
            s['names'][k] = s['names'].get(k, 0) + v
        for x in r['refuted']:
            x = dict(x)
            x['item'] = r['item']
            s['refuted'].append(x)
        for x in r['undecided']:
            x = dict(x)
            x['item'] = r['item']
            s['undecided'].append(x)
        for x in r['unsupported']:
            x = dict(x)
            x['item'] = r['item']
            s['unsupported'].append(x)
        for x in r['cross_fail']:
            x = dict(x)
            x['item'] = r['item']
            s['cross_fail'].append(x)
        if r['error']:
            s['errors'].append({'item': r['item'], 'error': r['error']})
        if r['budget']:
            s['budget'].append({'item': r['item'], 'detail': r['budget']})
        if len(s['samples']) < 3:
            s['samples'].extend(r['samples'][:1])
    return s


def finding_matches(f, gid, ref):
    """does the open known finding f cover this reproduced refutation?"""
    if f.get('group') != gid:
        return False
    clause = f.get('clause')
    failed = (ref.get('replay') or {}).get('failed_clauses') or [ref['name']]
    names = [ref['name']] + [x.split(' ')[0] for x in failed]
    if clause and not any(n == clause or n.endswith(':' + clause) for n in names):
        return False
    pred = f.get('predicate')
    if pred:
        scope = {'model': ref.get('model', {}), 'item': ref.get('item'), 'replay': ref.get('replay') or {}}
        try:
            return bool(eval(pred, {'__builtins__': {'len': len, 'any': any, 'all': all, 'str': str, 'int': int,
                                                     'isinstance': isinstance, 'repr': repr}}, scope))
        except Exception:  # noqa
            return False
    return True


def source_hashes(envr, funcs):
    out = {}
    for q in funcs:
        fi = envr.program.funcs.get(q)
        out[q] = fi.sha if fi else 'MISSING'
    return out


def main(argv):
    ap = argparse.ArgumentParser(prog='check')
    ap.add_argument('prop', nargs='?')
    ap.add_argument('--tier', default=os.environ.get('VERIF_TIER', 'quick'))
    ap.add_argument('--groups', default=None)
    ap.add_argument('--replay', default=None)
    ap.add_argument('--procs', type=int, default=None)
    ap.add_argument('--max-show', type=int, default=6)
    ap.add_argument('--no-evidence', action='store_true')
    ap.add_argument('--write-baseline', action='store_true')
    ap.add_argument('--selftest', action='store_true')
    args = ap.parse_args(argv)
    if args.tier not in ('quick', 'thorough'):
        args.tier = 'quick'
    seed = int(os.environ.get('VERIF_SEED', '0') or 0)

    if args.replay:
        from . import replaycmd
        return replaycmd.main(args.replay)
    if args.selftest:
        from . import selftest
        return selftest.main()

    props = load_properties()
    t0 = time.time()
    if args.groups:
        gids = args.groups.split(',')
        pid = args.prop or 'DEV'
        pinfo = props.PROPERTIES.get(pid, {})
    else:
        pid = args.prop
        if pid not in props.PROPERTIES:
            print('unknown or unclaimed property %r' % pid)
            return 3
        pinfo = props.PROPERTIES[pid]
        gids = list(pinfo['groups'])
    # dependency closure: groups establishing contracts assumed by summaries
    changed = not os.environ.get('PYVC_NOCLOSURE')
    while changed:
        changed = False
        for gid in list(gids):
            for a in registry.get(gid).assumes:
                if a not in gids and a in registry.load():
                    gids.append(a)
                    changed = True
    cfg = {'tier': args.tier, 'seed': seed, 'item_timeout': 900 if args.tier == 'quick' else 3600,
           'cross_rate': 25 if args.tier == 'quick' else 4}
    done = [0]

    def progress(r):
        done[0] += 1
        if os.environ.get('PYVC_VERBOSE'):
            print('  [%d] %s %s paths=%d obl=%d ref=%d und=%d unsup=%d %.1fs' % (
                done[0], r['gid'], json.dumps(r['item'])[:70], r['paths'], r['obligations'], len(r['refuted']),
                len(r['undecided']), len(r['unsupported']), r.get('wall_s', 0)), flush=True)

    res = harness.run_groups(gids, cfg, procs=args.procs, progress=progress)
    envr = harness.env()
    groups = [summarize_group(registry.get(gid), res[gid]) for gid in gids]
    known = load_json(os.path.join(VERIF, 'known_findings.json'), {'findings': []})
    baseline = load_json(os.path.join(VERIF, 'baseline_obligations.json'), {})
    open_findings = [f for f in known.get('findings', []) if f.get('status') == 'open' and f.get('property') == pid]

    violations = []     # (gid, ref)
    nofail = []         # refuted, not reproduced, obligation in baseline
    undecided = []
    engine_errors = []
    known_hits = {}
    tot_obl = tot_dis = 0
    for g in groups:
        tot_obl += g['obligations']
        tot_dis += g['discharged']
        for e in g['errors']:
            engine_errors.append('%s item %s crashed: %s' % (g['gid'], json.dumps(e['item'])[:80], e['error']))
        for x in g['cross_fail']:
            engine_errors.append('%s item %s: engine/CPython disagreement: %s' % (g['gid'], json.dumps(x['item'])[:80], x['detail']))
        if g['obligations'] == 0 and not g['unsupported'] and not g['undecided'] and not g['budget']:
            engine_errors.append('%s generated no obligations (vacuous run)' % g['gid'])
        for x in g['budget']:
            undecided.append('%s item %s: %s' % (g['gid'], json.dumps(x['item'])[:80], x['detail']))
        for x in g['unsupported']:
            undecided.append('%s item %s: unsupported: %s' % (g['gid'], json.dumps(x['item'])[:80], x['detail']))
        for x in g['undecided']:
            undecided.append('%s item %s: %s undecided: %s' % (g['gid'], json.dumps(x['item'])[:80], x['name'], x['detail']))
        for ref in g['refuted']:
            rp = ref.get('replay') or {}
            st = rp.get('status')
            if st == 'REPRODUCED':
                hit = None
                for f in open_findings:
                    if finding_matches(f, g['gid'], ref):
                        hit = f
                        break
                if hit is not None:
                    known_hits.setdefault(hit['id'], [hit, 0])[1] += 1
                else:
                    violations.append((g['gid'], ref))
            elif st in (None, 'NOT-REPRODUCED', 'REPLAY-UNSUPPORTED'):
                if ref['name'] in baseline.get(g['gid'], []):
                    nofail.append((g['gid'], ref))
                else:
                    undecided.append('%s item %s: %s refuted by the solver but not reproduced natively%s' % (
                        g['gid'], json.dumps(ref['item'])[:80], ref['name'], ' (approximate string equality)' if ref.get('approx') else ''))
            else:
                engine_errors.append('%s: replay error for %s: %s' % (g['gid'], ref['name'], rp.get('detail')))

    # if a contract assumed by a summary is itself refuted, disagreements with CPython are expected there
    if violations:
        engine_errors = [e for e in engine_errors if 'disagreement' not in e]

    wall = time.time() - t0
    # ---- report
    print('== %s tier=%s seed=%d src=%s' % (pid, args.tier, seed, envr.src))
    for g in groups:
        print('  %-4s %s-mode items=%d paths=%d obligations=%d discharged=%d refuted=%d undecided=%d cross-checked=%d '
              'solver=%.1fs cpu=%.0fs' % (g['gid'], g['mode'], g['items'], g['paths'], g['obligations'], g['discharged'],
                                           len(g['refuted']), len(g['undecided']) + len(g['unsupported']), g['cross_ok'],
                                           g['solver_s'], g['wall_s']))
    rc = 0
    replay_dir = os.path.join(VERIF, 'replays', pid)
    if os.path.isdir(replay_dir):
        for fn in os.listdir(replay_dir):
            if fn.endswith('.json'):
                os.unlink(os.path.join(replay_dir, fn))
    if violations or nofail:
        os.makedirs(replay_dir, exist_ok=True)
    seen = set()
    n = 0
    for gid, ref in violations:
        key = (gid, ref['name'], tuple((ref.get('replay') or {}).get('failed_clauses', [])[:1]))
        if key in seen:
            continue
        seen.add(key)
        path = os.path.join(replay_dir, '%s-%d.json' % (gid, len(seen)))
        with open(path, 'w') as f:
            json.dump({'property': pid, 'group': gid, 'obligation': ref['name'], 'item': ref['item'], 'model': ref['model'],
                       'detail': ref['detail'], 'replay': ref['replay'], 'src': envr.src}, f, indent=1, default=str)
        if len(seen) <= args.max_show:
            rp = ref['replay']
            print('VIOLATION property=%s replay=%s' % (pid, path))
            print('    obligation %s/%s; native run of %s: failed %s' % (gid, ref['name'], rp.get('call'), rp.get('failed_clauses')[:3]))
        rc = 1
    for gid, ref in nofail:
        key = (gid, ref['name'], 'nofail')
        if key in seen:
            continue
        seen.add(key)
        path = os.path.join(replay_dir, '%s-%d.json' % (gid, len(seen)))
        with open(path, 'w') as f:
            json.dump({'property': pid, 'group': gid, 'obligation': ref['name'], 'item': ref['item'], 'model': ref['model'],
                       'detail': ref['detail'], 'replay': ref['replay'], 'src': envr.src,
                       'note': 'solver counter-model did not reproduce on the real code'}, f, indent=1, default=str)
        print('VIOLATION property=%s replay=%s no-failing-input-found' % (pid, path))
        rc = 1
    if violations:
        print('  (%d refuted obligation instances reproduced natively, %d distinct shown)' % (len(violations), min(len(seen), args.max_show)))
    for fid, (f, cnt) in known_hits.items():
        print('KNOWN-FINDING: property=%s %s (%d instances)' % (pid, f['text'], cnt))
    if rc == 0 and engine_errors:
        for e in engine_errors[:args.max_show]:
            print('ENGINE-ERROR ' + (e if len(e) < 900 else e[:250] + ' ... ' + e[-600:]))
        rc = 3
    if rc == 0 and undecided:
        for u in undecided[:args.max_show]:
            print('UNDECIDED ' + u[:400])
        print('  (%d undecided in total)' % len(undecided))
        rc = 2
    if rc == 0 and tot_dis != tot_obl:
        print('ENGINE-ERROR obligation accounting: %d generated, %d discharged, none reported as refuted or undecided'
              % (tot_obl, tot_dis))
        rc = 3
    if rc == 0:
        print('OK %s: %d/%d obligations discharged in %.1fs' % (pid, tot_dis, tot_obl, wall))

    if args.write_baseline:
        for g in groups:
            refnames = {r['name'] for r in g['refuted']} | {u['name'] for u in g['undecided']}
            baseline[g['gid']] = sorted(n for n in g['names'] if n not in refnames)
        with open(os.path.join(VERIF, 'baseline_obligations.json'), 'w') as f:
            json.dump(baseline, f, indent=1, sort_keys=True)

    if not args.no_evidence and not args.groups:
        write_evidence(pid, pinfo, args, seed, groups, envr, wall, rc, len(violations) + len(nofail), undecided, known_hits)
    return rc


def write_evidence(pid, pinfo, args, seed, groups, envr, wall, rc, nviol, undecided, known_hits):
    tot_obl = sum(g['obligations'] for g in groups)
    tot_dis = sum(g['discharged'] for g in groups)
    by_backend = {}
    for g in groups:
        for k, v in g['by_backend'].items():
            by_backend[k] = by_backend.get(k, 0) + v
    u_groups = [g for g in groups if g['mode'] == 'U']
    b_groups = [g for g in groups if g['mode'] == 'B']
    funcs = []
    for g in groups:
        for q in g['functions']:
            if q not in funcs:
                funcs.append(q)
    hashes = source_hashes(envr, funcs)
    level = pinfo.get('level', 'other')
    if b_groups and level == 'proof':
        level = 'other'
    samples = []
    for g in groups:
        samples.extend(g['samples'][:1])
    ev = {
        'property_id': pid,
        'tier': args.tier,
        'seed': seed,
        'level': level,
        'coverage': {
            'obligations': tot_obl,
            'discharged': tot_dis,
            'checker_cmd': './check %s --tier %s' % (pid, args.tier),
            'trusted_base': pinfo.get('trusted_base', []) + COMMON_TRUSTED,
            'explanation': pinfo.get('explanation', ''),
            'exhaustive': False,
            'samples': samples[:6],
            'evaluations': sum(g['paths'] for g in groups),
            'distinct_nontrivial': sum(g['paths'] for g in groups),
            'rule': 'one evaluation = one feasible symbolic path of one work item (function under contract x bounded '
                    'container shape x argument form); paths are distinct by construction (different branch decisions)',
            'unbounded_groups': [{'group': g['gid'], 'title': g['title'], 'obligations': g['obligations'],
                                  'discharged': g['discharged'], 'bounds': g['bounds']} for g in u_groups],
            'bounded_groups': [{'group': g['gid'], 'title': g['title'], 'obligations': g['obligations'],
                                'discharged': g['discharged'], 'bounds': g['bounds'], 'shapes_items': g['items'],
                                'paths': g['paths']} for g in b_groups],
            'functions_under_contract': [{'function': q, 'source_sha256_16': hashes[q]} for q in funcs],
            'by_backend': by_backend,
            'solver_s': round(sum(g['solver_s'] for g in groups), 2),
            'solver_checks': sum(g['nchecks'] for g in groups),
            'cross_checked_paths_against_cpython': sum(g['cross_ok'] for g in groups),
            'undecided': len(undecided),
            'known_findings_hit': [f['id'] for f, _ in known_hits.values()],
            'exit_code': rc,
            'source_tree': envr.src,
        },
        'assumptions': pinfo.get('assumptions', []) + COMMON_ASSUMPTIONS,
        'wall_s': round(wall, 2),
        'violations': nviol,
    }
    os.makedirs(os.path.join(VERIF, 'evidence'), exist_ok=True)
    with open(os.path.join(VERIF, 'evidence', pid + '.json'), 'w') as f:
        json.dump(ev, f, indent=1, default=str)


COMMON_TRUSTED = [
    'pyvc (the AST->SMT engine in /verif/pyvc) and z3 5.1; mitigated by cross-checking explored paths against CPython',
    'assumed contracts on Python builtins, str/list/dict methods, Enum lookup (pyvc/builtins_model.py)',
    'CPython executes the AST that ast.parse returns for the source files; single thread; no monkey-patching',
]
COMMON_ASSUMPTIONS = [
    'Python integers are mathematical (true in Python)',
    'closed world: arguments have the documented types; AnsiSetting text is immutable after construction',
    'B-mode groups are bounded in the number of change points / markers / list lengths as stated per group; they are '
    'a bounded stand-in and are not counted as proved',
]
