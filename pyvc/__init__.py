"""pyvc - verification-condition generator for the Python subset used by Tails86/ansi-string.

The engine interprets the *real* source (ast.parse of /repo/src/ansi_string/*.py on every run)
symbolically; see /verif/DESIGN.md section 2.
"""
