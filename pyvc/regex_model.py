"""A backtracking matcher for *constant* regular expressions on strings of concrete length with symbolic characters
(DESIGN.md 2.6).  The pattern is parsed by CPython's own `re._parser`; the matcher follows the same priority order
(greedy repeats, alternatives left to right) and returns the first complete match, so on every path its groups are the
groups `re` returns.  Every character test forks the path.  Part of the trusted base; cross-checked against `re` on the
replayed models."""
import re

from . import sym
from .sym import Unsupported, PObj, ctx, i_cmp, b_and, b_or, b_not

try:
    _parser = re._parser
    _const = re._constants
except AttributeError:  # python < 3.11
    import sre_parse as _parser
    import sre_constants as _const

MAXREPEAT = _const.MAXREPEAT
SPACE_CPS = (9, 10, 11, 12, 13, 32)   # \s on ASCII text (the engine's character texts are ASCII by precondition)


def _in_cond(items, cp, ignorecase=False):
    negate = False
    conds = []
    for op, arg in items:
        op = str(op)
        if op == 'NEGATE':
            negate = True
        elif op == 'LITERAL':
            conds.append(i_cmp('==', cp, arg))
        elif op == 'RANGE':
            conds.append(b_and(i_cmp('>=', cp, arg[0]), i_cmp('<=', cp, arg[1])))
        elif op == 'CATEGORY':
            cat = str(arg)
            if cat == 'CATEGORY_SPACE':
                conds.append(b_or(*[i_cmp('==', cp, w) for w in SPACE_CPS]))
            elif cat == 'CATEGORY_DIGIT':
                conds.append(b_and(i_cmp('>=', cp, 48), i_cmp('<=', cp, 57)))
            else:
                raise Unsupported('regex category %s' % cat)
        else:
            raise Unsupported('regex set item %s' % op)
    r = b_or(*conds)
    return b_not(r) if negate else r


class _Matcher:
    def __init__(self, cps, flags):
        self.cps = cps
        self.n = len(cps)
        self.c = ctx()
        if flags & re.IGNORECASE:
            raise Unsupported('regex model: IGNORECASE')
        self.dotall = bool(flags & re.DOTALL)

    def test(self, cond):
        return self.c.truth(cond)

    def seq(self, nodes, i, pos, groups, k):
        """match nodes[i:] at pos; on success call k(pos, groups) -> result or None"""
        if i == len(nodes):
            return k(pos, groups)
        op, arg = nodes[i]
        op = str(op)
        rest = lambda p, g: self.seq(nodes, i + 1, p, g, k)  # noqa: E731
        if op == 'LITERAL':
            if pos < self.n and self.test(i_cmp('==', self.cps[pos], arg)):
                return rest(pos + 1, groups)
            return None
        if op == 'NOT_LITERAL':
            if pos < self.n and self.test(i_cmp('!=', self.cps[pos], arg)):
                return rest(pos + 1, groups)
            return None
        if op == 'ANY':
            if pos < self.n and (self.dotall or self.test(i_cmp('!=', self.cps[pos], 10))):
                return rest(pos + 1, groups)
            return None
        if op == 'IN':
            if pos < self.n and self.test(_in_cond(arg, self.cps[pos])):
                return rest(pos + 1, groups)
            return None
        if op == 'AT':
            a = str(arg)
            if a == 'AT_BEGINNING':
                return rest(pos, groups) if pos == 0 else None
            if a == 'AT_END':
                if pos == self.n or (pos == self.n - 1 and self.test(i_cmp('==', self.cps[pos], 10))):
                    return rest(pos, groups)
                return None
            raise Unsupported('regex anchor %s' % a)
        if op == 'SUBPATTERN':
            gid, add_flags, del_flags, sub = arg
            if add_flags or del_flags:
                raise Unsupported('regex inline flags')
            start = pos

            def after(p, g):
                g2 = dict(g)
                if gid is not None:
                    g2[gid] = (start, p)
                return rest(p, g2)
            return self.seq(list(sub), 0, pos, groups, after)
        if op == 'BRANCH':
            _, alts = arg
            for alt in alts:
                r = self.seq(list(alt), 0, pos, groups, rest)
                if r is not None:
                    return r
            return None
        if op in ('MAX_REPEAT', 'MIN_REPEAT'):
            lo, hi, sub = arg
            sub = list(sub)
            greedy = op == 'MAX_REPEAT'

            def rep(count, p, g):
                def more():
                    if hi != MAXREPEAT and count >= hi:
                        return None

                    def again(p2, g2):
                        if p2 == p and count >= lo:
                            return None  # empty iteration: stop
                        return rep(count + 1, p2, g2)
                    return self.seq(sub, 0, p, g, again)

                def stop():
                    if count < lo:
                        return None
                    return rest(p, g)
                first, second = (more, stop) if greedy else (stop, more)
                r = first()
                if r is not None:
                    return r
                return second()
            return rep(0, pos, groups)
        raise Unsupported('regex operator %s' % op)


class MatchObj:
    """engine value standing for an re.Match on a character string"""

    def __init__(self, cps, span, groups, ngroups):
        self.cps = cps
        self.span = span
        self.groups = groups
        self.ngroups = ngroups

    def group(self, g=0):
        if g == 0:
            a, b = self.span
        else:
            if g not in self.groups:
                if g > self.ngroups:
                    raise sym.PyExc('IndexError', 'no such group', True)
                return None
            a, b = self.groups[g]
        return sym.s_from_chars(self.cps[a:b])


def _run(pattern, s, flags, mode):
    cps = sym.s_chars(s) if sym.is_str(s) else None
    if cps is None:
        raise Unsupported('regex on a string of symbolic length')
    if not isinstance(pattern, str):
        raise Unsupported('symbolic regex pattern')
    tree = _parser.parse(pattern, flags)
    nodes = list(tree)
    ngroups = tree.state.groups - 1
    m = _Matcher(cps, flags)
    starts = [0] if mode in ('match', 'fullmatch') else range(0, len(cps) + 1)
    for st in starts:
        def done(p, g, st=st):
            if mode == 'fullmatch' and p != len(cps):
                return None
            return (st, p, g)
        r = m.seq(nodes, 0, st, {}, done)
        if r is not None:
            return MatchObj(cps, (r[0], r[1]), r[2], ngroups)
    return None


def re_search(interp, c, args, kw):
    return _run(args[0], args[1], args[2] if len(args) > 2 else kw.get('flags', 0), 'search')


def re_match(interp, c, args, kw):
    return _run(args[0], args[1], args[2] if len(args) > 2 else kw.get('flags', 0), 'match')


def re_fullmatch(interp, c, args, kw):
    return _run(args[0], args[1], args[2] if len(args) > 2 else kw.get('flags', 0), 'fullmatch')
