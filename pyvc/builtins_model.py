"""Assumed contracts on builtins, str/list/dict methods, Enum lookup, math, re (DESIGN.md 2.6).

Every function here is part of the trusted base: it states what CPython does for the modelled
argument shapes and raises Unsupported (=> undecided) outside them.
"""
import z3

from . import sym
from .sym import (Unsupported, Infeasible, PyExc, PList, PDict, PObj, PSlice, PIter, EnumVal, Rope, Approx,
                  is_z3, is_int, is_bool, is_str, simp, Z, ctx, b_and, b_or, b_not, i_cmp, i_add, i_sub)

INTERP = None

BUILTIN_NAMES = {
    'len', 'isinstance', 'hasattr', 'str', 'int', 'bool', 'list', 'tuple', 'dict', 'sorted', 'reversed', 'range',
    'enumerate', 'zip', 'min', 'max', 'iter', 'next', 'id', 'ord', 'chr', 'type', 'super', 'slice', 'abs', 'any',
    'all', 'sum', 'repr', 'getattr', 'set', 'object', 'print', 'format',
}

WHITESPACE_CPS = (9, 10, 11, 12, 13, 28, 29, 30, 31, 32, 133, 160, 5760, 8192, 8193, 8194, 8195, 8196, 8197, 8198,
                  8199, 8200, 8201, 8202, 8232, 8233, 8239, 8287, 12288)


class RangeVal:
    __slots__ = ('start', 'stop', 'step')

    def __init__(self, start, stop, step):
        self.start, self.stop, self.step = start, stop, step


class SymSeq:
    """A sequence (list/tuple/str view) of symbolic length; elements through `elem(i)`.  U-mode only."""
    __slots__ = ('length', 'elem', 'kind', 'tag')

    def __init__(self, length, elem, kind='list', tag=None):
        self.length = length
        self.elem = elem
        self.kind = kind
        self.tag = tag


def symseq_getitem(interp, s, key):
    c = ctx()
    if isinstance(key, PSlice):
        if not step_is_one(key.step):
            raise Unsupported('symseq step')
        lo, hi = sym.slice_bounds(key.start, key.stop, s.length)
        return SymSeq(i_sub(hi, lo), (lambda i, lo=lo: s.elem(i_add(lo, i))), s.kind, s.tag)
    if not is_int(key):
        raise PyExc('TypeError', 'indices must be integers', True)
    if not c.truth(b_and(i_cmp('>=', key, sym.i_neg(s.length)), i_cmp('<', key, s.length))):
        raise PyExc('IndexError', 'index out of range', True)
    if c.truth(i_cmp('<', key, 0)):
        key = i_add(key, s.length)
    return s.elem(key)


def symseq_concat(interp, a, b):
    raise Unsupported('symseq concat')


# =============================================================================================
# equality / identity / membership

def v_not(interp, r):
    if isinstance(r, Approx):
        # not(sufficient condition for equality) is not a sufficient condition for inequality
        c = ctx()
        if not c.in_spec:
            raise Unsupported('negated undecidable string equality in program code')
        t = c.truth(r)
        return not t
    if is_bool(r):
        return b_not(r)
    return not interp.truth(r)


def _both(a, b, t):
    return isinstance(a, t) and isinstance(b, t)


def enum_int(interp, ev):
    if not interp.p.enum_is_int(ev.ecls):
        raise PyExc('TypeError', 'enum is not an int', True)
    return ev.index


def v_eq(interp, a, b):
    if a is b and not isinstance(a, PObj):
        return True
    from . import abstract as _ab
    if isinstance(a, _ab.AbsVal) or isinstance(b, _ab.AbsVal):
        if isinstance(a, _ab.AbsVal) and isinstance(b, _ab.AbsVal):
            return True if a.term.eq(b.term) else (a.term == b.term)
        x, y = (a, b) if isinstance(a, _ab.AbsVal) else (b, a)
        if isinstance(y, PList) and not y.items:
            return x.term == _ab.NIL
        raise Unsupported('comparison of an abstract settings list with a concrete one')
    if isinstance(a, _ab.AbsTbl) or isinstance(b, _ab.AbsTbl):
        ta = a.term if isinstance(a, _ab.AbsTbl) else (_ab.EMPTY if isinstance(a, PDict) and not a.keys else None)
        tb = b.term if isinstance(b, _ab.AbsTbl) else (_ab.EMPTY if isinstance(b, PDict) and not b.keys else None)
        if ta is None or tb is None:
            raise Unsupported('comparison of an abstract table with a concrete one')
        return True if ta.eq(tb) else (ta == tb)
    from .summaries import AbsAny as _AbsAny
    if isinstance(a, _AbsAny) or isinstance(b, _AbsAny):
        if isinstance(a, _AbsAny) and isinstance(b, _AbsAny):
            return True if a.term.eq(b.term) else (a.term == b.term)
        raise Unsupported('comparison of an uninterpreted value with a concrete one')
    if isinstance(a, UStr) or isinstance(b, UStr):
        if not (isinstance(a, UStr) or is_str(a)) or not (isinstance(b, UStr) or is_str(b)):
            return False
        ta = a.term if isinstance(a, UStr) else str_term(a)
        tb = b.term if isinstance(b, UStr) else str_term(b)
        return True if ta.eq(tb) else (ta == tb)
    if a is None or b is None:
        return a is None and b is None
    p = interp.p
    if isinstance(a, EnumVal) and isinstance(b, EnumVal):
        if a.ecls == b.ecls:
            return i_cmp('==', a.index, b.index)
        if p.enum_is_int(a.ecls) and p.enum_is_int(b.ecls):
            return i_cmp('==', a.index, b.index)
        return False
    if isinstance(a, EnumVal) and p.enum_is_int(a.ecls):
        a = a.index
    if isinstance(b, EnumVal) and p.enum_is_int(b.ecls):
        b = b.index
    if isinstance(a, EnumVal) or isinstance(b, EnumVal):
        if isinstance(a, PObj) or isinstance(b, PObj):
            pass
        else:
            return False
    if is_bool(a) and is_bool(b):
        if isinstance(a, bool) and isinstance(b, bool):
            return a == b
        return Z(a) == Z(b)
    if is_bool(a) and is_int(b):
        a = int(a) if isinstance(a, bool) else sym.atom(z3.If(a, 1, 0))
    if is_bool(b) and is_int(a):
        b = int(b) if isinstance(b, bool) else sym.atom(z3.If(b, 1, 0))
    if is_int(a) and is_int(b):
        return i_cmp('==', a, b)
    if is_str(a) and is_str(b):
        return sym.s_eq(a, b)
    if isinstance(a, PObj):
        m = p.find_member(a.cls, '__eq__')
        if m is not None:
            r = interp.invoke(m, [a, b], {})
            return r if (is_bool(r) or isinstance(r, Approx)) else interp.truth(r)
        if a.cls == 'AnsiStr' and (is_str(b) or isinstance(b, PObj) and b.cls == 'AnsiStr'):
            return v_eq(interp, a.attrs['__payload__'], b.attrs['__payload__'] if isinstance(b, PObj) else b)
        if isinstance(b, PObj) and p.find_member(b.cls, '__eq__') is not None and b.cls != a.cls:
            r = interp.invoke(p.find_member(b.cls, '__eq__'), [b, a], {})
            return r if (is_bool(r) or isinstance(r, Approx)) else interp.truth(r)
        return a is b
    if isinstance(b, PObj):
        m = p.find_member(b.cls, '__eq__')
        if m is not None:
            r = interp.invoke(m, [b, a], {})
            return r if (is_bool(r) or isinstance(r, Approx)) else interp.truth(r)
        if b.cls == 'AnsiStr' and is_str(a):
            return v_eq(interp, a, b.attrs['__payload__'])
        return False
    if _both(a, b, tuple) or _both(a, b, PList):
        xs = a if isinstance(a, tuple) else a.items
        ys = b if isinstance(b, tuple) else b.items
        if len(xs) != len(ys):
            return False
        rs = [v_eq(interp, x, y) for x, y in zip(xs, ys)]
        return _conj(rs)
    if _both(a, b, PDict):
        if len(a.keys) != len(b.keys):
            return False
        rs = []
        for k, v in zip(a.keys, a.vals):
            j = dict_find(interp, b, k)
            if j < 0:
                return False
            rs.append(v_eq(interp, v, b.vals[j]))
        return _conj(rs)
    if isinstance(a, PSlice) and isinstance(b, PSlice):
        return _conj([v_eq(interp, a.start, b.start), v_eq(interp, a.stop, b.stop), v_eq(interp, a.step, b.step)])
    if isinstance(a, SymSeq) or isinstance(b, SymSeq):
        raise Unsupported('== on symbolic-length sequence')
    return False


def _conj(rs):
    if any(isinstance(r, Approx) for r in rs):
        cs = [r.cond if isinstance(r, Approx) else r for r in rs]
        c = b_and(*cs)
        if c is False:
            # some exact conjunct may already be False
            if any(r is False for r in rs):
                return False
        return Approx(c)
    return b_and(*rs)


def v_is(interp, a, b):
    if a is None or b is None:
        return a is None and b is None
    if isinstance(a, sym.HeapObj) or isinstance(b, sym.HeapObj):
        return a is b
    if isinstance(a, EnumVal) and isinstance(b, EnumVal):
        if a.ecls != b.ecls:
            return False
        return i_cmp('==', a.index, b.index)
    if isinstance(a, bool) and isinstance(b, bool):
        return a == b
    if is_bool(a) and is_bool(b):
        return Z(a) == Z(b)
    if isinstance(a, bool) or isinstance(b, bool):
        if is_z3(a) or is_z3(b):
            raise Unsupported('is between bool and symbolic')
        return False
    from .interp import ClassRef, TypeVal, BuiltinRef
    if isinstance(a, (ClassRef, TypeVal, BuiltinRef)) and isinstance(b, (ClassRef, TypeVal, BuiltinRef)):
        return a.name == b.name
    if isinstance(a, tuple) and isinstance(b, tuple):
        return a is b
    if type(a) != type(b) and not (is_int(a) and is_int(b)) and not (is_str(a) and is_str(b)):
        return False
    raise Unsupported('`is` on %s,%s' % (type(a).__name__, type(b).__name__))


def v_in(interp, a, cont):
    c = ctx()
    if is_str(cont):
        if isinstance(a, PObj) and a.cls == 'AnsiStr':
            a = a.attrs['__payload__']
        if not is_str(a):
            raise PyExc('TypeError', "'in <string>' requires string as left operand", True)
        if isinstance(a, str) and isinstance(cont, str):
            return a in cont
        ca, cc = sym.s_chars(a), sym.s_chars(cont)
        if ca is not None and len(ca) == 0:
            return True
        if ca is not None and cc is not None:
            if len(ca) > len(cc):
                return False
            alts = []
            for off in range(len(cc) - len(ca) + 1):
                alts.append(b_and(*[i_cmp('==', x, cc[off + k]) for k, x in enumerate(ca)]))
            return b_or(*alts)
        return str_uf(interp, 'contains', cont, a, sort='bool')
    if isinstance(cont, (PList, tuple)):
        items = cont.items if isinstance(cont, PList) else cont
        rs = []
        for e in items:
            if e is a:
                return True if not rs else _disj(rs + [True])
            rs.append(v_eq(interp, a, e))
        return _disj(rs)
    if isinstance(cont, PDict):
        rs = []
        for k in cont.keys:
            r = key_eq(interp, a, k)
            if r is True:
                return True
            rs.append(r)
        return _disj(rs)
    if isinstance(cont, PIter):
        return v_in(interp, a, PList(cont.seq[cont.pos:]))
    if isinstance(cont, RangeVal):
        if cont.step != 1:
            raise Unsupported('in range with step')
        return b_and(i_cmp('>=', a, cont.start), i_cmp('<', a, cont.stop))
    if isinstance(cont, PObj):
        m = interp.p.find_member(cont.cls, '__contains__')
        if m is not None:
            r = interp.invoke(m, [cont, a], {})
            return r if is_bool(r) else interp.truth(r)
        if cont.cls == 'AnsiStr':
            return v_in(interp, a, cont.attrs['__payload__'])
    if isinstance(cont, SymSeq):
        raise Unsupported('in on symbolic-length sequence')
    raise Unsupported('in on %s' % type(cont).__name__)


def _disj(rs):
    if any(isinstance(r, Approx) for r in rs):
        c = ctx()
        for r in rs:
            if c.truth(r):
                return True
        return False
    return b_or(*rs)


# =============================================================================================
# lists / tuples

def _concrete_index(i, n, what='index'):
    """turn a (possibly symbolic) index into a python int in [0, n) by forking; IndexError outside."""
    c = ctx()
    if isinstance(i, EnumVal):
        i = enum_int(INTERP, i)
    if isinstance(i, bool):
        i = int(i)
    if not is_int(i):
        raise PyExc('TypeError', 'indices must be integers', True)
    if not is_z3(i):
        if i < -n or i >= n:
            raise PyExc('IndexError', '%s out of range' % what, True)
        return i % n if n else 0
    for j in range(n):
        if c.truth(b_or(i_cmp('==', i, j), i_cmp('==', i, j - n))):
            return j
    raise PyExc('IndexError', '%s out of range' % what, True)


def _concrete_bound(v, n):
    """a slice bound clamped to [0, n] as python int (forking on symbolic values)."""
    c = ctx()
    if not is_z3(v):
        return v
    for j in range(n + 1):
        if c.truth(i_cmp('==', v, j)):
            return j
    raise Infeasible()


def step_is_one(step):
    """True when a slice step is None or (on this path) equal to 1"""
    if step is None:
        return True
    if is_z3(step):
        return ctx().truth(i_cmp('==', step, 1))
    return step == 1


def _slice_concrete(key, n):
    if not step_is_one(key.step):
        if not is_z3(key.step) and not is_z3(key.start) and not is_z3(key.stop):
            return None
        raise Unsupported('symbolic slice step')
    lo, hi = sym.slice_bounds(key.start, key.stop, n)
    return _concrete_bound(lo, n), _concrete_bound(hi, n)


def seq_getitem(interp, items, key, is_list):
    if isinstance(key, PSlice):
        r = _slice_concrete(key, len(items))
        if r is None:
            out = list(items)[slice(key.start, key.stop, key.step)]
        else:
            out = list(items)[r[0]:r[1]]
        return PList(out) if is_list else tuple(out)
    j = _concrete_index(key, len(items), 'list index' if is_list else 'tuple index')
    return items[j]


def list_setitem(interp, lst, key, v):
    if isinstance(key, PSlice):
        r = _slice_concrete(key, len(lst.items))
        if r is None:
            raise Unsupported('extended slice assignment')
        lst.items[r[0]:r[1]] = list(interp.iterate(v))
        return
    j = _concrete_index(key, len(lst.items), 'list assignment index')
    lst.items[j] = v


def list_delitem(interp, lst, key):
    if isinstance(key, PSlice):
        r = _slice_concrete(key, len(lst.items))
        if r is None:
            raise Unsupported('extended slice deletion')
        del lst.items[r[0]:r[1]]
        return
    j = _concrete_index(key, len(lst.items), 'list assignment index')
    del lst.items[j]


def list_extend(interp, lst, v):
    if v is lst:
        lst.items.extend(list(lst.items))
        return
    lst.items.extend(list(interp.iterate(v)))


# =============================================================================================
# dicts

def key_eq(interp, a, b):
    """equality of dict keys (ints / enum values / strings / tuples)."""
    if isinstance(a, sym.SymInt) and isinstance(b, sym.SymInt) and a.key() == b.key():
        return True
    r = v_eq(interp, a, b)
    if isinstance(r, Approx):
        raise Unsupported('dict key equality undecidable')
    return r


def dict_find(interp, d, key):
    c = ctx()
    if isinstance(key, (PList, PDict)):
        raise PyExc('TypeError', 'unhashable type', True)
    for j, k in enumerate(d.keys):
        if c.truth(key_eq(interp, key, k)):
            return j
    return -1


def dict_getitem(interp, d, key):
    j = dict_find(interp, d, key)
    if j < 0:
        raise PyExc('KeyError', repr(key), True)
    return d.vals[j]


def dict_setitem(interp, d, key, v):
    j = dict_find(interp, d, key)
    if j < 0:
        d.keys.append(key)
        d.vals.append(v)
    else:
        d.vals[j] = v


def dict_delitem(interp, d, key):
    j = dict_find(interp, d, key)
    if j < 0:
        raise PyExc('KeyError', repr(key), True)
    del d.keys[j]
    del d.vals[j]


# =============================================================================================
# enums

def _enum_known_codes(interp, cname):
    return sorted(int(m.value) for m in interp.p.enum_members(cname))


def enum_by_value(interp, cname, v):
    c = ctx()
    p = interp.p
    ncls = p.enum_native[cname]
    if isinstance(v, EnumVal):
        if v.ecls == cname:
            return v
        if p.enum_is_int(v.ecls):
            v = v.index
    if p.enum_is_int(cname):
        if isinstance(v, bool):
            v = int(v)
        if not is_int(v):
            raise PyExc('ValueError', '%r is not a valid %s' % (v, cname), True)
        if not is_z3(v):
            try:
                return interp.lift_enum(ncls(v))
            except ValueError:
                raise PyExc('ValueError', '%r is not a valid %s' % (v, cname), True)
        codes = _enum_known_codes(interp, cname)
        known = b_or(*[b_and(i_cmp('>=', v, lo), i_cmp('<=', v, hi)) for lo, hi in _runs(codes)])
        if c.truth(known):
            return EnumVal(cname, v)
        raise PyExc('ValueError', 'not a valid %s' % cname, True)
    if is_z3(v):
        raise Unsupported('symbolic value lookup in non-int enum')
    try:
        nv = interp.bm_lower(v) if hasattr(interp, 'bm_lower') else _lower_simple(v)
        return interp.lift_enum(ncls(nv))
    except ValueError:
        raise PyExc('ValueError', '%r is not a valid %s' % (v, cname), True)


def _lower_simple(v):
    if v is None or isinstance(v, (bool, int, str)):
        return v
    if isinstance(v, tuple):
        return tuple(_lower_simple(x) for x in v)
    raise Unsupported('lower %r' % (type(v),))


def _runs(codes):
    runs = []
    for cd in codes:
        if runs and runs[-1][1] == cd - 1:
            runs[-1][1] = cd
        else:
            runs.append([cd, cd])
    return runs


def enum_by_name(interp, cname, name):
    ncls = interp.p.enum_native[cname]
    if isinstance(name, str):
        if name in ncls.__members__:
            return interp.lift_enum(ncls[name])
        raise PyExc('KeyError', name, True)
    if isinstance(name, Rope):
        summ = interp.p.summaries.get('enum_by_name')
        if summ is not None:
            return summ(interp, cname, name)
        cps = sym.s_chars(name)
        if cps is not None:
            # a name of concrete length: it is one of the members of that length, or absent
            c = ctx()
            for k in ncls.__members__:
                if len(k) == len(cps) and c.truth(b_and(*[i_cmp('==', cp, ord(ch)) for cp, ch in zip(cps, k)])):
                    return interp.lift_enum(ncls[k])
            raise PyExc('KeyError', 'name', True)
    raise Unsupported('enum lookup by symbolic name')


_TABLES = {}


def _enum_table(interp, cname, attr):
    """UF + defining axioms for an attribute of a symbolic member of an int enum."""
    key = (id(interp.p), cname, attr)
    if key not in _TABLES:
        f = z3.Function('tbl_%s_%s' % (cname, attr), sym.IntSort, sym.IntSort)
        rows = []
        rcls = None
        for m in interp.p.enum_members(cname):
            v = getattr(m, attr)
            lv = interp.lift(v)
            if isinstance(lv, EnumVal):
                rcls = lv.ecls
                rows.append((int(m.value), lv.index))
            elif isinstance(lv, int):
                rows.append((int(m.value), lv))
            else:
                raise Unsupported('enum table of non-scalar attribute')
        _TABLES[key] = (f, rows, rcls)
    return _TABLES[key]


def enum_getattr(interp, ev, name):
    from .interp import BoundMethod, FuncRef
    p = interp.p
    m = p.find_member(ev.ecls, name)
    if m is not None and name not in ('__init__',):
        if m.kind == 'property':
            return interp.invoke(m, [ev], {})
        if m.kind == 'static':
            return FuncRef(m)
        return BoundMethod(ev, m)
    if name == 'value' and p.enum_is_int(ev.ecls):
        return ev.index
    nm = interp.enum_native_member(ev)
    if nm is not None:
        if name in ('value', 'name') or name.startswith('_'):
            try:
                return interp.lift(getattr(nm, name))
            except AttributeError:
                raise PyExc('AttributeError', name, True)
        raise PyExc('AttributeError', '%s has no attribute %s' % (ev.ecls, name), True)
    # symbolic member of an int enum: table lookup
    if not p.enum_is_int(ev.ecls):
        if name == 'value':
            vals = [m.value for m in p.enum_members(ev.ecls)]
            if all(isinstance(v, int) for v in vals) and vals == list(range(vals[0], vals[0] + len(vals))):
                return i_add(ev.index, vals[0])
        raise Unsupported('attribute of symbolic member of %s' % ev.ecls)
    f, rows, rcls = _enum_table(interp, ev.ecls, name)
    c = ctx()
    c.axiom_once(('tbl', ev.ecls, name), lambda: [f(z3.IntVal(k)) == z3.IntVal(v) for k, v in rows])
    r = sym.atom(f(Z(ev.index)))
    if rcls is not None:
        return EnumVal(rcls, r)
    return r


# =============================================================================================
# modules

def module_attr(interp, mod, name):
    from .interp import BuiltinRef
    if mod == 'math' and name == 'floor':
        return BuiltinRef('math.floor')
    if mod == 're':
        import re
        if name in ('IGNORECASE', 'I'):
            return int(re.IGNORECASE)
        if name in ('search', 'match', 'finditer', 'escape', 'fullmatch', 'compile', 'sub'):
            return BuiltinRef('re.' + name)
    raise Unsupported('module attribute %s.%s' % (mod, name))


def super_attr(interp, sref, name):
    from .interp import BuiltinRef, BoundMethod
    p = interp.p
    bases = p.mro(sref.cls)[1:]
    for b in bases:
        m = p.find_member(b, name) if b in p.classes else None
        if m is not None:
            return BoundMethod(sref.recv, m)
    if 'str' in bases and name == '__new__':
        return BuiltinRef('str.__new__')
    raise Unsupported('super().%s' % name)


# =============================================================================================
# strings

def is_ws(cp):
    return b_or(*[i_cmp('==', cp, w) for w in WHITESPACE_CPS])


def to_str(interp, v):
    if is_str(v) or isinstance(v, UStr):
        return v
    if isinstance(v, bool):
        return str(v)
    if isinstance(v, EnumVal):
        if interp.p.enum_is_int(v.ecls) and interp.p.find_member(v.ecls, '__str__') is None:
            # IntEnum str() differs between python versions (name vs value): not modelled
            raise Unsupported('str() of IntEnum member')
        raise Unsupported('str() of enum member')
    if is_int(v):
        return sym.mk_rope([('istr', v)])
    if v is None:
        return 'None'
    if isinstance(v, PObj):
        m = interp.p.find_member(v.cls, '__str__')
        if m is not None:
            r = interp.invoke(m, [v], {})
            if not is_str(r) and not isinstance(r, UStr):
                raise PyExc('TypeError', '__str__ returned non-string', True)
            return r
        if v.cls == 'AnsiStr':
            return v.attrs['__payload__']
        raise Unsupported('str() of %s' % v.cls)
    raise Unsupported('str() of %s' % type(v).__name__)


def _strip_chars(cps, pred, left=True, right=True):
    c = ctx()
    lo, hi = 0, len(cps)
    if left:
        while lo < hi and c.truth(pred(cps[lo])):
            lo += 1
    if right:
        while hi > lo and c.truth(pred(cps[hi - 1])):
            hi -= 1
    return cps[lo:hi]


def str_strip(interp, s, chars=None, left=True, right=True):
    if isinstance(s, str) and (chars is None or isinstance(chars, str)):
        if left and right:
            return s.strip(chars)
        return s.lstrip(chars) if left else s.rstrip(chars)
    at0 = sym.atoms_of(s)
    if len(at0) == 1 and at0[0][0] == 'opq' and sym.s_chars(s) is None:
        return strip_opaque(interp, at0[0], chars, left, right)
    if chars is None:
        pred = is_ws
    else:
        cc = sym.s_chars(chars)
        if cc is None:
            raise Unsupported('strip with symbolic-length char set')
        pred = lambda cp: b_or(*[i_cmp('==', cp, x) for x in cc])
    cps = sym.s_chars(s)
    if cps is not None:
        return sym.s_from_chars(_strip_chars(cps, pred, left, right))
    at = sym.atoms_of(s)
    if len(at) == 1 and at[0][0] == 'opq':
        return strip_opaque(interp, at[0], chars, left, right)
    # rope with non-char atoms: strip literal/char atoms at the ends only when the inner atoms cannot be stripped
    atoms = list(sym.atoms_of(s))

    def strippable(a):
        return a[0] in ('lit', 'chr')
    if chars is None and all(strippable(a) or a[0] == 'istr' for a in atoms):
        # istr atoms contain no whitespace
        out = atoms
        if left:
            while out and strippable(out[0]):
                rest = _strip_chars(sym.s_chars(sym.mk_rope([out[0]])), pred, True, False)
                if rest:
                    out = list(sym.atoms_of(sym.s_from_chars(rest))) + out[1:]
                    break
                out = out[1:]
        if right:
            while out and strippable(out[-1]):
                rest = _strip_chars(sym.s_chars(sym.mk_rope([out[-1]])), pred, False, True)
                if rest:
                    out = out[:-1] + list(sym.atoms_of(sym.s_from_chars(rest)))
                    break
                out = out[:-1]
        return sym.mk_rope(out)
    raise Unsupported('strip on rope with opaque atoms')


_STRIP_CACHE = {}


def strip_opaque(interp, atom, chars, left, right):
    """Assumed contract of str.strip/lstrip/rstrip on a text of symbolic length: the result is the slice [a, b) where
    everything before a (after b) is in the character set and the characters at a and b-1 are not."""
    c = ctx()
    _, T, lo, hi = atom
    key = (T.name, sym._lin(lo), sym._lin(hi), id(chars) if not isinstance(chars, str) else chars, left, right)
    ent = _STRIP_CACHE.get(key)
    if ent is None:
        k = len(_STRIP_CACHE)
        ent = (sym.int_const('strip_a!%d' % k), sym.int_const('strip_b!%d' % k), chars)
        _STRIP_CACHE[key] = ent
    a, b_, _keepalive = ent

    def member(j):
        ch = sym.mk_rope([('opq', T, j, i_add(j, 1))])
        if chars is None:
            return is_ws(sym.s_chars(ch)[0])
        r = v_in(interp, ch, chars)
        if isinstance(r, Approx):
            raise Unsupported('membership undecidable')
        return r

    def zb(x):
        return z3.BoolVal(x) if isinstance(x, bool) else x
    c.assume(i_cmp('<=', lo, a))
    c.assume(i_cmp('<=', a, b_))
    c.assume(i_cmp('<=', b_, hi))
    j = sym.int_const('j!strip')
    jz = Z(j)
    if left:
        c.assume(z3.ForAll([jz], z3.Implies(z3.And(jz >= Z(lo), jz < Z(a)), zb(member(j)))))
        c.assume(b_or(i_cmp('==', a, hi), b_not(member(a))))
    else:
        c.assume(i_cmp('==', a, lo))
    if right:
        c.assume(z3.ForAll([jz], z3.Implies(z3.And(jz >= Z(b_), jz < Z(hi)), zb(member(j)))))
        c.assume(b_or(i_cmp('==', b_, a), b_not(member(i_sub(b_, 1)))))
    else:
        c.assume(i_cmp('==', b_, hi))
    return sym.mk_rope([('opq', T, a, b_)])


_SPLIT_CACHE = {}
SPLIT_MAX_PIECES = 3


def split_opaque(interp, atom, sep, maxsplit, right):
    """Assumed contract of str.split/rsplit(sep, maxsplit) with an explicit non-empty separator on a text of symbolic
    length, for results of at most SPLIT_MAX_PIECES pieces (bounded): the pieces are consecutive slices of the text
    separated by exactly `sep`, the first starts at 0 and the last ends at the end."""
    c = ctx()
    _, T, lo, hi = atom
    if not c.truth(i_cmp('!=', sym.s_len(sep), 0)):
        raise PyExc('ValueError', 'empty separator', True)
    ls = sym.s_len(sep)
    key = (T.name, sym._lin(lo), sym._lin(hi), str(str_term(sep)), str(maxsplit), right)
    ent = _SPLIT_CACHE.get(key)
    if ent is None:
        ent = {'id': len(_SPLIT_CACHE)}
        _SPLIT_CACHE[key] = ent
    ck = ('split_k', key)
    if ck not in c.cache:
        c.cache[ck] = c.choice(SPLIT_MAX_PIECES) + 1   # the number of pieces is a function of the call
    k = c.cache[ck]
    if is_int(maxsplit):
        c.assume(b_or(i_cmp('<', maxsplit, 0), i_cmp('<=', k - 1, maxsplit)))
    pieces = []
    a = lo
    for i in range(k):
        if i == k - 1:
            b_ = hi
        else:
            b_ = sym.int_const('split_b!%d_%d_%d' % (ent['id'], k, i))
            c.assume(i_cmp('>=', b_, a))
            c.assume(i_cmp('<=', i_add(b_, ls), hi))
            here = sym.mk_rope([('opq', T, b_, i_add(b_, ls))])
            c.assume(str_term(here) == str_term(sep))
        pieces.append(sym.mk_rope([('opq', T, a, b_)]))
        a = i_add(b_, ls)
    return PList(pieces)


def str_split(interp, s, sep=None, maxsplit=-1):
    if isinstance(s, str) and (sep is None or isinstance(sep, str)) and not is_z3(maxsplit):
        return PList(s.split(sep, maxsplit))
    if sep is None or not isinstance(sep, str) or len(sep) != 1:
        raise Unsupported('split of symbolic string with sep %r' % (sep,))
    if is_z3(maxsplit):
        raise Unsupported('symbolic maxsplit')
    c = ctx()
    parts = []
    cur = []
    atoms = list(sym.atoms_of(s))
    nsplit = 0
    sc = ord(sep)
    for ai, a in enumerate(atoms):
        k = a[0]
        if k == 'lit':
            for ch in a[1]:
                if ch == sep and (maxsplit < 0 or nsplit < maxsplit):
                    parts.append(sym.mk_rope(cur))
                    cur = []
                    nsplit += 1
                else:
                    cur.append(('lit', ch))
        elif k == 'chr':
            if (maxsplit < 0 or nsplit < maxsplit) and c.truth(i_cmp('==', a[1], sc)):
                parts.append(sym.mk_rope(cur))
                cur = []
                nsplit += 1
            else:
                cur.append(a)
        elif k == 'istr':
            if sep in '-0123456789':
                raise Unsupported('split separator may occur in str(int)')
            cur.append(a)
        elif k == 'rep':
            if c.truth(b_or(i_cmp('!=', a[1], sc), i_cmp('==', a[2], 0))):
                cur.append(a)
            else:
                raise Unsupported('split inside repeated separator')
        else:
            raise Unsupported('split of opaque text')
    parts.append(sym.mk_rope(cur))
    return PList(parts)


def str_join(interp, sep, it):
    items = list(interp.iterate(it))
    out = ''
    for n, x in enumerate(items):
        if isinstance(x, PObj) and x.cls == 'AnsiStr':
            x = x.attrs['__payload__']
        if not is_str(x):
            raise PyExc('TypeError', 'sequence item %d: expected str instance' % n, True)
        if n:
            out = sym.s_concat(out, sep)
        out = sym.s_concat(out, x)
    return out


def str_format(interp, fmt, args, kwargs):
    if not isinstance(fmt, str) or kwargs:
        raise Unsupported('format on symbolic template / with keywords')
    out = ''
    i = 0
    n = 0
    while i < len(fmt):
        ch = fmt[i]
        if ch == '{':
            if fmt[i:i + 2] == '{{':
                out = sym.s_concat(out, '{')
                i += 2
                continue
            if fmt[i:i + 2] == '{}':
                if n >= len(args):
                    raise PyExc('IndexError', 'Replacement index out of range', True)
                a = args[n]
                from .interp import TypeVal
                if isinstance(a, (TypeVal, EnumVal)):
                    a = '<type>'
                out = sym.s_concat(out, to_str(interp, a))
                n += 1
                i += 2
                continue
            raise Unsupported('format field %r' % fmt[i:i + 8])
        if ch == '}':
            if fmt[i:i + 2] == '}}':
                out = sym.s_concat(out, '}')
                i += 2
                continue
            raise PyExc('ValueError', "Single '}' encountered in format string", True)
        out = sym.s_concat(out, ch)
        i += 1
    return out


def py_int_of_chars(cps, base=10):
    """CPython's int(str, base) on a string given as code points, exact for ASCII input.
    Forks on character classes.  Non-ASCII input is outside the model (Unsupported)."""
    c = ctx()
    for cp in cps:
        if is_z3(cp) and not c.truth(b_and(i_cmp('>=', cp, 0), i_cmp('<', cp, 128))):
            raise Unsupported('int() of non-ASCII text')
        if not is_z3(cp) and cp >= 128:
            raise Unsupported('int() of non-ASCII text')
    cps = _strip_chars(list(cps), is_ws, True, True)
    err = PyExc('ValueError', 'invalid literal for int()', True)
    if not cps:
        raise err
    sign = 1
    if c.truth(i_cmp('==', cps[0], 45)):
        sign = -1
        cps = cps[1:]
    elif c.truth(i_cmp('==', cps[0], 43)):
        cps = cps[1:]
    if not cps:
        raise err
    if base == 16 and len(cps) >= 2 and c.truth(b_and(i_cmp('==', cps[0], 48),
                                                      b_or(i_cmp('==', cps[1], 120), i_cmp('==', cps[1], 88)))):
        cps = cps[2:]
        if cps and c.truth(i_cmp('==', cps[0], 95)):
            cps = cps[1:]
        if not cps:
            raise err
    val = 0
    prev_us = True  # a leading underscore is invalid
    for cp in cps:
        if c.truth(i_cmp('==', cp, 95)):
            if prev_us:
                raise err
            prev_us = True
            continue
        if c.truth(b_and(i_cmp('>=', cp, 48), i_cmp('<=', cp, 57))):
            d = i_sub(cp, 48)
        elif base == 16 and c.truth(b_and(i_cmp('>=', cp, 97), i_cmp('<=', cp, 102))):
            d = i_sub(cp, 87)
        elif base == 16 and c.truth(b_and(i_cmp('>=', cp, 65), i_cmp('<=', cp, 70))):
            d = i_sub(cp, 55)
        else:
            raise err
        val = i_add(sym.i_mul(val, base), d)
        prev_us = False
    if prev_us:
        raise err
    return val if sign == 1 else sym.i_neg(val)


def to_int(interp, v, base=None):
    if isinstance(v, EnumVal):
        return enum_int(interp, v)
    if isinstance(v, bool):
        return int(v)
    if is_int(v):
        if base is not None:
            raise PyExc('TypeError', "int() can't convert non-string with explicit base", True)
        return v
    if isinstance(v, PObj) and v.cls == 'AnsiStr':
        v = v.attrs['__payload__']
    if isinstance(v, str) and (base is None or not is_z3(base)):
        try:
            return int(v) if base is None else int(v, base)
        except ValueError:
            raise PyExc('ValueError', 'invalid literal for int(): %r' % v, True)
    if isinstance(v, Rope):
        b = 10 if base is None else base
        if is_z3(b):
            raise Unsupported('symbolic base')
        cps = sym.s_chars(v)
        if cps is not None:
            return py_int_of_chars(cps, b)
        s = str_strip(interp, v)
        at = sym.atoms_of(s)
        if len(at) == 1 and at[0][0] == 'istr' and b == 10:
            return at[0][1]
        raise Unsupported('int() of rope %r' % (v,))
    if v is None or isinstance(v, (PList, PDict, tuple)):
        raise PyExc('TypeError', 'int() argument must be a string or a number', True)
    raise Unsupported('int() of %s' % type(v).__name__)


_STR_UF = {}
STRSORT = sym.STRSORT


def str_term(s):
    """a term of the uninterpreted sort PyStr denoting the string value (used by uninterpreted str methods)"""
    c = ctx()
    if isinstance(s, PObj) and s.cls == 'AnsiStr':
        s = s.attrs['__payload__']
    if isinstance(s, UStr):
        return s.term
    if isinstance(s, str):
        key = ('strlit', s)
        if key not in c.cache:
            k = z3.Const('lit_%d' % len([x for x in c.cache if isinstance(x, tuple) and x[0] == 'strlit']), STRSORT)
            c.cache[key] = k
        return c.cache[key]
    atoms = sym.atoms_of(s)
    terms = []
    for a in atoms:
        if a[0] == 'lit':
            terms.append(str_term(a[1]))
        elif a[0] == 'opq':
            base = z3.Const('sv_' + a[1].name, STRSORT)
            if sym._eqz(a[2], 0) and sym._eqz(a[3], a[1].len):
                terms.append(base)
            else:
                f = z3.Function('str.slice', STRSORT, sym.IntSort, sym.IntSort, STRSORT)
                terms.append(f(base, Z(a[2]), Z(a[3])))
        elif a[0] == 'chr':
            f = z3.Function('str.chr', sym.IntSort, STRSORT)
            terms.append(f(Z(a[1])))
        elif a[0] == 'rep':
            f = z3.Function('str.rep', sym.IntSort, sym.IntSort, STRSORT)
            terms.append(f(Z(a[1]), Z(a[2])))
        elif a[0] == 'istr':
            f = z3.Function('str.of_int', sym.IntSort, STRSORT)
            terms.append(f(Z(a[1])))
    t = terms[0]
    cat = z3.Function('str.cat', STRSORT, STRSORT, STRSORT)
    for u in terms[1:]:
        t = cat(t, u)
    return t


def _arg_term(interp, a):
    """encode an argument of an uninterpreted str method as a list of z3 terms"""
    if a is None:
        return [z3.BoolVal(True), z3.IntVal(0)]
    if isinstance(a, bool):
        return [z3.BoolVal(False), z3.IntVal(int(a))]
    if is_bool(a):
        return [z3.BoolVal(False), z3.If(a, 1, 0)]
    if is_int(a):
        return [z3.BoolVal(False), Z(a)]
    if is_str(a) or isinstance(a, UStr) or isinstance(a, PObj) and a.cls == 'AnsiStr':
        return [str_term(a)]
    if isinstance(a, tuple):
        out = [z3.IntVal(len(a))]
        for x in a:
            out.extend(_arg_term(interp, x))
        return out
    raise Unsupported('argument of uninterpreted str method: %s' % type(a).__name__)


def str_uf(interp, name, recv, *args, sort='int'):
    """An uninterpreted str method: the result is a function of the string values and the other
    arguments - nothing else is assumed about it."""
    ctx().no_crosscheck = True  # the model's interpretation of an uninterpreted method is not CPython's
    ts = [str_term(recv)]
    for a in args:
        ts.extend(_arg_term(interp, a))
    rs = {'int': sym.IntSort, 'bool': sym.BoolSort, 'str': STRSORT}[sort]
    f = z3.Function('str.%s/%d' % (name, len(ts)), *([t.sort() for t in ts] + [rs]))
    r = f(*ts)
    if sort == 'str':
        return UStr(r)
    return r


UStr = sym.UStr


# =============================================================================================
# builtin functions

def type_name(interp, v):
    if v is None:
        return 'NoneType'
    if is_bool(v):
        return 'bool'
    if is_int(v):
        return 'int'
    if is_str(v) or isinstance(v, UStr):
        return 'str'
    if isinstance(v, PList):
        return 'list'
    if isinstance(v, tuple):
        return 'tuple'
    if isinstance(v, PDict):
        return 'dict'
    if isinstance(v, PSlice):
        return 'slice'
    if isinstance(v, PObj):
        return v.cls
    if isinstance(v, EnumVal):
        return v.ecls
    return type(v).__name__


def isinstance_one(interp, v, t):
    from .interp import ClassRef, BuiltinRef
    p = interp.p
    if isinstance(t, BuiltinRef):
        n = t.name
        if n == 'int':
            return is_int(v) or is_bool(v) or (isinstance(v, EnumVal) and p.enum_is_int(v.ecls))
        if n == 'bool':
            return is_bool(v)
        if n == 'str':
            return is_str(v) or isinstance(v, UStr) or (isinstance(v, PObj) and p.is_subclass(v.cls, 'str'))
        if n == 'list':
            return isinstance(v, PList) or (isinstance(v, SymSeq) and v.kind == 'list')
        if n == 'tuple':
            return isinstance(v, tuple) or (isinstance(v, SymSeq) and v.kind == 'tuple')
        if n == 'dict':
            return isinstance(v, PDict)
        if n == 'slice':
            return isinstance(v, PSlice)
        if n == 'object':
            return True
        raise Unsupported('isinstance(_, %s)' % n)
    if isinstance(t, ClassRef):
        if isinstance(v, PObj):
            return p.is_subclass(v.cls, t.name)
        if isinstance(v, EnumVal):
            return v.ecls == t.name
        return False
    raise Unsupported('isinstance against %r' % (t,))


def call_builtin(interp, name, args, kwargs):
    c = ctx()
    f = _BUILTINS.get(name)
    if f is None and name.startswith('str.') and args:
        # unbound str method: str.m(x, ...) - for an AnsiStr this is the method of its str payload
        recv = args[0]
        if isinstance(recv, PObj) and recv.cls == 'AnsiStr':
            recv = recv.attrs['__payload__']
        if is_str(recv) or isinstance(recv, UStr):
            if isinstance(recv, UStr):
                return call_method(interp, recv, name[4:], args[1:], kwargs) if name[4:] != '__str__' else recv
            return str_method(interp, recv, name[4:], args[1:], kwargs)
    if f is None:
        if name in sym.EXC_PARENTS:
            raise Unsupported('exception object as a value')
        raise Unsupported('builtin %s' % name)
    return f(interp, c, args, kwargs)


def _b_len(interp, c, args, kw):
    (v,) = args
    if is_str(v):
        return sym.s_len(v)
    if isinstance(v, UStr):
        return sym.s_len(v)
    if isinstance(v, PList):
        return len(v.items)
    if isinstance(v, tuple):
        return len(v)
    if isinstance(v, PDict):
        return len(v.keys)
    if isinstance(v, SymSeq):
        return v.length
    if isinstance(v, RangeVal):
        if v.step == 1:
            return sym.i_max(i_sub(v.stop, v.start), 0)
        raise Unsupported('len(range) with step')
    if isinstance(v, PObj):
        m = interp.p.find_member(v.cls, '__len__')
        if m is not None:
            return interp.invoke(m, [v], {})
        if v.cls == 'AnsiStr':
            return sym.s_len(v.attrs['__payload__'])
    raise PyExc('TypeError', 'object has no len()', True)


def _b_isinstance(interp, c, args, kw):
    v, t = args
    if isinstance(t, tuple):
        return any(isinstance_one(interp, v, x) for x in t)
    return isinstance_one(interp, v, t)


def _b_hasattr(interp, c, args, kw):
    v, n = args
    return interp.hasattr(v, n)


def _b_getattr(interp, c, args, kw):
    if len(args) == 3:
        if interp.hasattr(args[0], args[1]):
            return interp.getattr(args[0], args[1])
        return args[2]
    return interp.getattr(args[0], args[1])


def _b_str(interp, c, args, kw):
    if not args:
        return ''
    return to_str(interp, args[0])


def _b_repr(interp, c, args, kw):
    v = args[0]
    if isinstance(v, str):
        return repr(v)
    return str_uf(interp, 'repr', to_str(interp, v), sort='str')


def _b_int(interp, c, args, kw):
    if not args:
        return 0
    return to_int(interp, args[0], args[1] if len(args) > 1 else kw.get('base'))


def _b_bool(interp, c, args, kw):
    if not args:
        return False
    v = args[0]
    if is_bool(v):
        return v
    if is_int(v):
        return i_cmp('!=', v, 0)
    if is_str(v):
        return sym.s_truth(v)
    return interp.truth(v)


def _b_list(interp, c, args, kw):
    if not args:
        return PList()
    return PList(list(interp.iterate(args[0])))


def _b_tuple(interp, c, args, kw):
    if not args:
        return ()
    return tuple(interp.iterate(args[0]))


def _b_dict(interp, c, args, kw):
    d = PDict()
    if args:
        src = args[0]
        if isinstance(src, PDict):
            d.keys = list(src.keys)
            d.vals = list(src.vals)
        else:
            for kv in interp.iterate(src):
                k, v = list(interp.iterate(kv))
                dict_setitem(interp, d, k, v)
    for k, v in kw.items():
        dict_setitem(interp, d, k, v)
    return d


def _b_dict_fromkeys(interp, c, args, kw):
    d = PDict()
    val = args[1] if len(args) > 1 else None
    for k in interp.iterate(args[0]):
        dict_setitem(interp, d, k, val)
    return d


def _sort_key(interp, x):
    if isinstance(x, tuple) and x:
        return _sort_key(interp, x[0])
    if isinstance(x, EnumVal):
        return enum_int(interp, x)
    if is_int(x):
        return x
    if isinstance(x, str):
        return x
    raise Unsupported('sorting of %s' % type(x).__name__)


def _b_sorted(interp, c, args, kw):
    items = list(interp.iterate(args[0]))
    if 'key' in kw and kw['key'] is not None:
        raise Unsupported('sorted(key=)')
    rev = kw.get('reverse', False)
    rev = interp.truth(rev)
    keys = [_sort_key(interp, x) for x in items]
    if all(isinstance(k, str) for k in keys):
        order = sorted(range(len(items)), key=lambda i: keys[i], reverse=rev)
        return PList([items[i] for i in order])
    if any(isinstance(k, str) for k in keys):
        raise PyExc('TypeError', 'unorderable', True)
    out = []  # insertion sort (stable), ascending
    for i in range(len(items)):
        pos = len(out)
        while pos > 0 and c.truth(i_cmp('<', keys[i], keys[out[pos - 1]])):
            pos -= 1
        out.insert(pos, i)
    # tuples with equal first components would compare the next component
    for a, b in zip(out, out[1:]):
        if isinstance(items[a], tuple) and c.truth(i_cmp('==', keys[a], keys[b])):
            raise Unsupported('sorted() tie between tuples')
    if rev:
        # reverse=True keeps the original order of equal elements
        groups = []
        for i in out:
            if groups and c.truth(i_cmp('==', keys[groups[-1][0]], keys[i])):
                groups[-1].append(i)
            else:
                groups.append([i])
        out = [i for g in reversed(groups) for i in g]
    return PList([items[i] for i in out])


def _b_reversed(interp, c, args, kw):
    v = args[0]
    if isinstance(v, RangeVal):
        items = list(range_iter(interp, v))
    elif is_str(v):
        items = list(interp.iterate(v))
    elif isinstance(v, (PList, tuple)):
        items = list(v.items if isinstance(v, PList) else v)
    else:
        raise Unsupported('reversed(%s)' % type(v).__name__)
    return PIter(items[::-1])


def _b_range(interp, c, args, kw):
    if len(args) == 1:
        return RangeVal(0, args[0], 1)
    if len(args) == 2:
        return RangeVal(args[0], args[1], 1)
    if is_z3(args[2]):
        raise Unsupported('symbolic range step')
    return RangeVal(args[0], args[1], args[2])


def range_iter(interp, r):
    c = ctx()
    i = r.start
    if r.step > 0:
        while c.truth(i_cmp('<', i, r.stop)):
            c.tick()
            yield i
            i = i_add(i, r.step)
    elif r.step < 0:
        while c.truth(i_cmp('>', i, r.stop)):
            c.tick()
            yield i
            i = i_add(i, r.step)
    else:
        raise PyExc('ValueError', 'range() arg 3 must not be zero', True)


def _b_enumerate(interp, c, args, kw):
    start = args[1] if len(args) > 1 else kw.get('start', 0)
    return _LazyIter(interp, args[0], lambda n, x: (i_add(start, n), x))


class _LazyIter(sym.HeapObj):
    """enumerate()/zip(): lazily follows the underlying iteration (live list semantics are kept)."""

    def __init__(self, interp, src, f):
        self._init()
        self.gen = self._run(interp, src, f)

    @staticmethod
    def _run(interp, src, f):
        for n, x in enumerate(interp.iterate(src)):
            yield f(n, x)


def _b_zip(interp, c, args, kw):
    its = [interp.iterate(a) for a in args]

    def gen():
        while True:
            row = []
            for it in its:
                try:
                    row.append(next(it))
                except StopIteration:
                    return
            yield tuple(row)
    z = _LazyIter.__new__(_LazyIter)
    z._init()
    z.gen = gen()
    return z


def _b_minmax(is_min):
    def f(interp, c, args, kw):
        if len(args) == 1:
            args = list(interp.iterate(args[0]))
        if not args:
            raise PyExc('ValueError', 'empty sequence', True)
        vals = [enum_int(interp, a) if isinstance(a, EnumVal) else a for a in args]
        if not all(is_int(v) for v in vals):
            raise Unsupported('min/max of non-ints')
        r = vals[0]
        for v in vals[1:]:
            r = sym.i_min(r, v) if is_min else sym.i_max(r, v)
        return r
    return f


def _b_iter(interp, c, args, kw):
    v = args[0]
    if isinstance(v, PIter):
        return v
    if isinstance(v, PObj):
        m = interp.p.find_member(v.cls, '__iter__')
        if m is not None:
            return interp.invoke(m, [v], {})
    return PIter(list(interp.iterate(v)))


def _b_next(interp, c, args, kw):
    it = args[0]
    if isinstance(it, PIter):
        if it.pos < len(it.seq):
            x = it.seq[it.pos]
            it.pos += 1
            return x
        if len(args) > 1:
            return args[1]
        raise PyExc('StopIteration', '', True)
    if isinstance(it, _LazyIter):
        try:
            return next(it.gen)
        except StopIteration:
            if len(args) > 1:
                return args[1]
            raise PyExc('StopIteration', '', True)
    if isinstance(it, PObj):
        m = interp.p.find_member(it.cls, '__next__')
        if m is not None:
            return interp.invoke(m, [it], {})
    raise PyExc('TypeError', 'object is not an iterator', True)


def _b_id(interp, c, args, kw):
    v = args[0]
    if isinstance(v, sym.HeapObj):
        return 1000000 + v.aid
    return id(v)


def _b_ord(interp, c, args, kw):
    s = args[0]
    cps = sym.s_chars(s) if is_str(s) else None
    if cps is None:
        raise Unsupported('ord() of non-char')
    if len(cps) != 1:
        raise PyExc('TypeError', 'ord() expected a character', True)
    return cps[0]


def _b_chr(interp, c, args, kw):
    return sym.mk_rope([('chr', args[0])])


def _b_type(interp, c, args, kw):
    from .interp import TypeVal
    return TypeVal(type_name(interp, args[0]))


def _b_slice(interp, c, args, kw):
    if len(args) == 1:
        return PSlice(None, args[0], None)
    if len(args) == 2:
        return PSlice(args[0], args[1], None)
    return PSlice(*args)


def _b_abs(interp, c, args, kw):
    v = args[0]
    if not is_z3(v):
        return abs(v)
    return sym.atom(z3.If(Z(v) >= 0, Z(v), -Z(v)))


def _b_any(interp, c, args, kw):
    for x in interp.iterate(args[0]):
        if interp.truth(x):
            return True
    return False


def _b_all(interp, c, args, kw):
    for x in interp.iterate(args[0]):
        if not interp.truth(x):
            return False
    return True


def _b_sum(interp, c, args, kw):
    tot = args[1] if len(args) > 1 else 0
    for x in interp.iterate(args[0]):
        tot = i_add(tot, x)
    return tot


def _b_floor(interp, c, args, kw):
    from .interp import Frac
    v = args[0]
    if isinstance(v, Frac):
        # math.floor(a / d) == a // d for |a| < 2**53 (assumption 6 of DESIGN.md section 9)
        return sym.i_floordiv(v.num, v.den)
    if is_int(v):
        return v
    raise Unsupported('math.floor')


def _b_str_new(interp, c, args, kw):
    cls = args[0]
    payload = to_str(interp, args[1]) if len(args) > 1 else ''
    return PObj(cls.name, {'__payload__': payload})


def _b_print(interp, c, args, kw):
    return None


_RE_CACHE = {}
RE_MAX_MATCHES = 3


def _b_re_escape(interp, c, args, kw):
    s = args[0]
    if isinstance(s, str):
        import re
        return re.escape(s)
    return str_uf(interp, 're.escape', s, sort='str')


def _b_re_finditer(interp, c, args, kw):
    """Assumed contract of re.finditer(pattern, text, flags) (bounded: at most RE_MAX_MATCHES matches): a finite sequence
    of matches with 0 <= start <= end <= len(text), increasing and non-overlapping, determined by the three arguments."""
    pat, text = args[0], args[1]
    flags = args[2] if len(args) > 2 else kw.get('flags', 0)
    key = (str(str_term(pat)), str(str_term(text)), str(Z(flags)) if is_z3(flags) else flags)
    ent = _RE_CACHE.setdefault(key, {'id': len(_RE_CACHE)})
    ck = ('re_k', key)
    if ck not in c.cache:
        c.cache[ck] = c.choice(RE_MAX_MATCHES + 1)
    k = c.cache[ck]
    c.no_crosscheck = True
    n = sym.s_len(text)
    out = []
    prev_end = 0
    prev_start = None
    for i in range(k):
        s_ = sym.int_const('re_s!%d_%d_%d' % (ent['id'], k, i))
        e_ = sym.int_const('re_e!%d_%d_%d' % (ent['id'], k, i))
        c.assume(i_cmp('>=', s_, prev_end))
        c.assume(i_cmp('<=', s_, e_))
        c.assume(i_cmp('<=', e_, n))
        if prev_start is not None:
            c.assume(i_cmp('>', s_, prev_start))
        out.append(PObj('__match__', {'_start': s_, '_end': e_}))
        prev_end, prev_start = e_, s_
    return PIter(out)


def _match_method(which):
    def f(interp, recv, args, kwargs):
        g = args[0] if args else 0
        if is_z3(g) or g != 0:
            from .summaries import AbsAny as _AbsAny  # group other than 0: uninterpreted position inside the match
            return sym.atom(z3.Function('match.%s' % which, sym.IntSort, sym.IntSort, sym.IntSort)(Z(recv.attrs['_start']), Z(g)))
        return recv.attrs['_' + which]
    return f


def _re(fn):
    def f(interp, c, args, kw):
        from . import regex_model
        return getattr(regex_model, fn)(interp, c, args, kw)
    return f


_BUILTINS = {
    're.escape': _b_re_escape, 're.finditer': _b_re_finditer,
    're.search': _re('re_search'), 're.match': _re('re_match'), 're.fullmatch': _re('re_fullmatch'),
    'dict.fromkeys': _b_dict_fromkeys,
    'len': _b_len, 'isinstance': _b_isinstance, 'hasattr': _b_hasattr, 'getattr': _b_getattr, 'str': _b_str,
    'repr': _b_repr, 'int': _b_int, 'bool': _b_bool, 'list': _b_list, 'tuple': _b_tuple, 'dict': _b_dict,
    'sorted': _b_sorted, 'reversed': _b_reversed, 'range': _b_range, 'enumerate': _b_enumerate, 'zip': _b_zip,
    'min': _b_minmax(True), 'max': _b_minmax(False), 'iter': _b_iter, 'next': _b_next, 'id': _b_id, 'ord': _b_ord,
    'chr': _b_chr, 'type': _b_type, 'slice': _b_slice, 'abs': _b_abs, 'any': _b_any, 'all': _b_all, 'sum': _b_sum,
    'math.floor': _b_floor, 'str.__new__': _b_str_new, 'print': _b_print,
}


# =============================================================================================
# methods of builtin types

PURE_STR_METHODS_STR = ('capitalize', 'casefold', 'lower', 'upper', 'swapcase', 'title', 'expandtabs', 'replace',
                        'ljust', 'rjust', 'center', 'zfill', 'removeprefix', 'removesuffix', 'lstrip', 'rstrip', 'strip')
PURE_STR_METHODS_INT = ('find', 'rfind', 'index', 'rindex', 'count')
PURE_STR_METHODS_BOOL = ('startswith', 'endswith', 'isalnum', 'isalpha', 'isascii', 'isdecimal', 'isdigit',
                         'isidentifier', 'islower', 'isnumeric', 'isprintable', 'isspace', 'istitle', 'isupper')


def _native_str_call(interp, recv, name, args, kwargs):
    """all-concrete call: use CPython's own str method"""
    def low(v):
        if isinstance(v, PObj) and v.cls == 'AnsiStr' and isinstance(v.attrs['__payload__'], str):
            return v.attrs['__payload__']
        if v is None or isinstance(v, (bool, int, str)):
            return v
        if isinstance(v, tuple):
            return tuple(low(x) for x in v)
        raise Unsupported('native str arg')
    try:
        r = getattr(recv, name)(*[low(a) for a in args], **{k: low(v) for k, v in kwargs.items()})
    except ValueError as e:
        raise PyExc('ValueError', str(e), True)
    except TypeError as e:
        raise PyExc('TypeError', str(e), True)
    except IndexError as e:
        raise PyExc('IndexError', str(e), True)
    return interp.lift(r)


def _all_concrete(vals):
    for v in vals:
        if v is None or isinstance(v, (bool, int, str)):
            continue
        if isinstance(v, tuple) and _all_concrete(v):
            continue
        return False
    return True


def str_method(interp, recv, name, args, kwargs):
    c = ctx()
    if name in ('__str__',):
        return recv
    if name == '__len__':
        return sym.s_len(recv)
    if name == '__repr__':
        return _b_repr(interp, c, [recv], {})
    if name == '__getitem__':
        return interp.getitem(recv, args[0])
    if name == '__contains__':
        return v_in(interp, args[0], recv)
    if name == '__eq__':
        return v_eq(interp, recv, args[0])
    if name == '__add__':
        return sym.s_concat(recv, args[0])
    if isinstance(recv, str) and _all_concrete(args) and _all_concrete(kwargs.values()) and name not in ('format', 'join'):
        if not hasattr(recv, name):
            raise PyExc('AttributeError', name, True)
        return _native_str_call(interp, recv, name, args, kwargs)
    if name == 'join':
        return str_join(interp, recv, args[0])
    if name == 'format':
        return str_format(interp, recv, args, kwargs)
    hook = interp.p.summaries.get('str.' + name)
    if hook is not None:
        r = hook(interp, recv, args, kwargs)
        if r is not NotImplemented:
            return r
    exact = _exact_char_classes(interp, recv, name, args, kwargs)
    if exact is not NotImplemented:
        return exact
    if name in ('split', 'rsplit'):
        sep = args[0] if args else kwargs.get('sep')
        mx = args[1] if len(args) > 1 else kwargs.get('maxsplit', -1)
        at = sym.atoms_of(recv) if is_str(recv) else ()
        if len(at) == 1 and at[0][0] == 'opq' and sym.s_chars(recv) is None and is_str(sep):
            return split_opaque(interp, at[0], sep, mx, name == 'rsplit')
        if name == 'rsplit':
            raise Unsupported('rsplit on symbolic string')
        return str_split(interp, recv, sep, mx)
    if name in ('strip', 'lstrip', 'rstrip'):
        ch = args[0] if args else None
        return str_strip(interp, recv, ch, name != 'rstrip', name != 'lstrip')
    if name == 'startswith' and len(args) == 1 and isinstance(args[0], str):
        pre = args[0]
        n = sym.s_len(recv)
        if not c.truth(i_cmp('>=', n, len(pre))):
            return False
        head = sym.s_slice(recv, 0, len(pre))
        r = sym.s_eq(head, pre)
        if isinstance(r, Approx):
            raise Unsupported('startswith on opaque text')
        return r
    if name == 'encode':
        raise Unsupported('str.encode on symbolic string')
    if kwargs:
        raise Unsupported('str.%s with keyword arguments on symbolic string' % name)
    exact = _exact_char_search(interp, recv, name, args)
    if exact is not NotImplemented:
        return exact
    exact = _exact_char_map(interp, recv, name, args)
    if exact is not NotImplemented:
        return exact
    if name in PURE_STR_METHODS_INT:
        # assumed contract: the result is a function of the receiver and the arguments; find-like results are -1 or a
        # position at which the pattern fits inside the text (and not before an integer start position)
        r = sym.atom(str_uf(interp, name, recv, *args))
        n = sym.s_len(recv)
        if name == 'count':
            c.assume(i_cmp('>=', r, 0))
        else:
            sub = args[0]
            ls = sym.s_len(sub) if is_str(sub) else 0
            c.assume(i_cmp('>=', r, -1))
            c.assume(b_or(i_cmp('==', r, -1), i_cmp('<=', i_add(r, ls), n)))
            if is_str(sub) and not isinstance(recv, UStr):
                # a successful search returns a position where the text reads `sub`
                here = sym.s_slice(recv, r, i_add(r, ls)) if False else None
                at = sym.atoms_of(recv)
                if len(at) == 1 and at[0][0] == 'opq':
                    sl = sym.mk_rope([('opq', at[0][1], i_add(at[0][2], r), i_add(at[0][2], i_add(r, ls)))])
                    c.assume(z3.Implies(Z(r) >= 0, str_term(sl) == str_term(sub)))
                    sa = sym.atoms_of(sub)
                    if name == 'find' and len(sa) == 1 and sa[0][0] == 'opq' and sa[0][1] is at[0][1]:
                        # the pattern is itself the slice [p, q) of this text: an occurrence at p is known, so the
                        # first occurrence at or after `start` is not later than p (when start <= p)
                        p = i_sub(sa[0][2], at[0][2])
                        st = args[1] if len(args) > 1 and args[1] is not None else 0
                        if is_int(st) and (len(args) < 3 or args[2] is None) and c.truth(i_cmp('>=', st, 0)):
                            if c.truth(i_cmp('<=', st, p)):
                                c.assume(i_cmp('>=', r, 0))
                                c.assume(i_cmp('<=', r, p))
            if len(args) > 1 and args[1] is not None and is_int(args[1]):
                st = args[1]
                c.assume(b_or(i_cmp('==', r, -1), i_cmp('<', st, 0), i_cmp('>=', r, st)))
            if name in ('index', 'rindex'):
                if c.truth(i_cmp('==', r, -1)):
                    raise PyExc('ValueError', 'substring not found', True)
        return r
    if name in PURE_STR_METHODS_BOOL:
        r = str_uf(interp, name, recv, *args, sort='bool')
        if name in ('startswith', 'endswith') and len(args) == 1 and is_str(args[0]):
            # the empty string is a prefix and a suffix of everything
            e0 = i_cmp('==', sym.s_len(args[0]), 0)
            if e0 is True:
                return True
            if not isinstance(e0, bool):
                c.assume(z3.Implies(e0, r))
            at = sym.atoms_of(recv) if is_str(recv) else ()
            if len(at) == 1 and at[0][0] == 'opq':
                la = sym.s_len(args[0])
                if name == 'startswith':
                    sl = sym.mk_rope([('opq', at[0][1], at[0][2], i_add(at[0][2], la))])
                else:
                    sl = sym.mk_rope([('opq', at[0][1], i_sub(at[0][3], la), at[0][3])])
                le = i_cmp('<=', la, sym.s_len(recv))
                c.assume(z3.Implies(z3.And(r, Z(le) if not isinstance(le, bool) else z3.BoolVal(le)),
                                    str_term(sl) == str_term(args[0])))
        if name in ('startswith', 'endswith') and args and is_str(args[0]):
            c.assume(z3.Implies(r, Z(i_cmp('<=', sym.s_len(args[0]), sym.s_len(recv)))
                                if not isinstance(i_cmp('<=', sym.s_len(args[0]), sym.s_len(recv)), bool)
                                else z3.BoolVal(i_cmp('<=', sym.s_len(args[0]), sym.s_len(recv)))))
        return r
    if name in ('partition', 'rpartition') and len(args) == 1 and is_str(args[0]) and is_str(recv):
        # assumed contract: split at the first (last) occurrence found by find (rfind); not found: (s, '', '') for
        # partition and ('', '', s) for rpartition
        sep = args[0]
        if not c.truth(i_cmp('!=', sym.s_len(sep), 0)):
            raise PyExc('ValueError', 'empty separator', True)
        i = str_method(interp, recv, 'find' if name == 'partition' else 'rfind', [sep], {})
        if c.truth(i_cmp('<', i, 0)):
            return (recv, '', '') if name == 'partition' else ('', '', recv)
        return (sym.s_slice(recv, 0, i), sep, sym.s_slice(recv, i_add(i, sym.s_len(sep)), None))
    if name == 'removeprefix' and len(args) == 1 and is_str(args[0]) and is_str(recv):
        if interp.truth(str_method(interp, recv, 'startswith', [args[0]], {})):
            return sym.s_slice(recv, sym.s_len(args[0]), None)
        return recv
    if name == 'removesuffix' and len(args) == 1 and is_str(args[0]) and is_str(recv):
        if c.truth(i_cmp('!=', sym.s_len(args[0]), 0)) and interp.truth(str_method(interp, recv, 'endswith', [args[0]], {})):
            return sym.s_slice(recv, 0, i_sub(sym.s_len(recv), sym.s_len(args[0])))
        return recv
    if name in PURE_STR_METHODS_STR:
        return str_uf(interp, name, recv, *args, sort='str')
    raise Unsupported('str.%s on symbolic string' % name)


LINEBREAK_CPS = (10, 11, 12, 13, 28, 29, 30, 133, 8232, 8233)


def _exact_char_classes(interp, recv, name, args, kwargs):
    """splitlines / split(None) / rsplit(None) / isspace on a string of concrete length with symbolic characters.  The
    result of these methods depends only on the class of each character (line break '\\n', '\\r', other line break,
    other whitespace, anything else), so the path forks on the class of each character and CPython's own method is run
    on a representative string to obtain the piece boundaries."""
    if name not in ('splitlines', 'split', 'rsplit', 'isspace') or not is_str(recv):
        return NotImplemented
    cps = sym.s_chars(recv)
    if cps is None:
        return NotImplemented
    c = ctx()
    if name in ('split', 'rsplit'):
        sep = args[0] if args else kwargs.get('sep')
        mx = args[1] if len(args) > 1 else kwargs.get('maxsplit', -1)
        if sep is not None:
            return NotImplemented
        if is_z3(mx):
            raise Unsupported('symbolic maxsplit on a character string')
    rep = []
    for cp in cps:
        if not is_z3(cp) and not isinstance(cp, sym.SymInt):
            ch = chr(cp)
            rep.append(ch if (ch.isspace() or cp in LINEBREAK_CPS) else 'a')
            continue
        if name == 'splitlines':
            if c.truth(i_cmp('==', cp, 10)):
                rep.append('\n')
            elif c.truth(i_cmp('==', cp, 13)):
                rep.append('\r')
            elif c.truth(b_or(*[i_cmp('==', cp, w) for w in LINEBREAK_CPS if w not in (10, 13)])):
                rep.append('\x0b')
            else:
                rep.append('a')
        else:
            rep.append(' ' if c.truth(is_ws(cp)) else 'a')
    rep = ''.join(rep)
    if name == 'isspace':
        return rep.isspace()
    if name == 'splitlines':
        keep = args[0] if args else kwargs.get('keepends', False)
        if is_z3(keep):
            keep = c.truth(keep)
        full = rep.splitlines(True)
        cut = rep.splitlines(bool(keep))
        out, pos = [], 0
        for f, p_ in zip(full, cut):
            out.append(sym.s_from_chars(cps[pos:pos + len(p_)]))
            pos += len(f)
        return PList(out)
    pieces = rep.split(None, mx) if name == 'split' else rep.rsplit(None, mx)
    out = []
    if name == 'split':
        pos = 0
        for p_ in pieces:
            while pos < len(rep) and rep[pos] == ' ':
                pos += 1
            out.append(sym.s_from_chars(cps[pos:pos + len(p_)]))
            pos += len(p_)
    else:
        pos = len(rep)
        for p_ in reversed(pieces):
            while pos > 0 and rep[pos - 1] == ' ':
                pos -= 1
            out.insert(0, sym.s_from_chars(cps[pos - len(p_):pos]))
            pos -= len(p_)
    return PList(out)


def _exact_char_map(interp, recv, name, args):
    """upper / lower / replace(one char, one char) on ASCII strings of concrete length, character by character"""
    if name not in ('upper', 'lower', 'replace') or not is_str(recv):
        return NotImplemented
    cps = sym.s_chars(recv)
    if cps is None:
        return NotImplemented
    c = ctx()
    for cp in cps:
        if is_z3(cp) and not c.truth(b_and(i_cmp('>=', cp, 0), i_cmp('<', cp, 128))):
            raise Unsupported('case mapping of non-ASCII text')
        if not is_z3(cp) and cp >= 128:
            return NotImplemented
    out = []
    if name in ('upper', 'lower'):
        if args:
            return NotImplemented
        lo, hi, d = (97, 122, -32) if name == 'upper' else (65, 90, 32)
        for cp in cps:
            if c.truth(b_and(i_cmp('>=', cp, lo), i_cmp('<=', cp, hi))):
                out.append(i_add(cp, d))
            else:
                out.append(cp)
        return sym.s_from_chars(out)
    if len(args) != 2 or not isinstance(args[0], str) or not isinstance(args[1], str) or len(args[0]) != 1 or len(args[1]) != 1:
        return NotImplemented
    a, b_ = ord(args[0]), ord(args[1])
    for cp in cps:
        out.append(b_ if c.truth(i_cmp('==', cp, a)) else cp)
    return sym.s_from_chars(out)


def _exact_char_search(interp, recv, name, args):
    """find / rfind / index / rindex / count / startswith / endswith on strings of concrete length (symbolic characters):
    CPython's semantics, decided by forking on character equalities"""
    if name not in ('find', 'rfind', 'index', 'rindex', 'count', 'startswith', 'endswith') or not args or not is_str(args[0]):
        return NotImplemented
    hay = sym.s_chars(recv) if is_str(recv) else None
    pat = sym.s_chars(args[0])
    if hay is None or pat is None:
        return NotImplemented
    if any(is_z3(a) for a in args[1:]):
        return NotImplemented
    c = ctx()
    n, m = len(hay), len(pat)
    lo, hi, _ = slice(*(list(args[1:3]) + [None] * (2 - len(args[1:3])))).indices(n)
    if len(args) > 1 and args[1] is not None and args[1] > n:
        # CPython: a start beyond the end finds nothing, not even the empty pattern
        if name in ('index', 'rindex'):
            raise PyExc('ValueError', 'substring not found', True)
        return {'find': -1, 'rfind': -1, 'count': 0}.get(name, False)

    def at(pos):
        return c.truth(b_and(*[i_cmp('==', hay[pos + k], pat[k]) for k in range(m)]))
    if name == 'startswith':
        return (hi - lo >= m) and lo <= n and at(lo) if (m <= max(hi - lo, 0) and lo + m <= n) else (m == 0 and lo <= n)
    if name == 'endswith':
        return at(hi - m) if (m <= max(hi - lo, 0)) else (m == 0 and lo <= n)
    positions = [p for p in range(lo, hi - m + 1)] if hi - m >= lo else []
    if name in ('find', 'index'):
        for p in positions:
            if at(p):
                return p
        if name == 'index':
            raise PyExc('ValueError', 'substring not found', True)
        return -1
    if name in ('rfind', 'rindex'):
        for p in reversed(positions):
            if at(p):
                return p
        if name == 'rindex':
            raise PyExc('ValueError', 'substring not found', True)
        return -1
    cnt = 0
    p = lo
    while p <= hi - m:
        if at(p):
            cnt += 1
            p += max(m, 1)
        else:
            p += 1
    return cnt


def list_method(interp, lst, name, args, kwargs):
    items = lst.items
    if name == 'append':
        items.append(args[0])
        return None
    if name == 'extend':
        list_extend(interp, lst, args[0])
        return None
    if name == 'insert':
        i = args[0]
        if is_z3(i):
            raise Unsupported('insert at symbolic index')
        items.insert(i, args[1])
        return None
    if name == 'pop':
        if not items:
            raise PyExc('IndexError', 'pop from empty list', True)
        j = _concrete_index(args[0], len(items)) if args else len(items) - 1
        return items.pop(j)
    if name == 'copy':
        return PList(items)
    if name == 'clear':
        del items[:]
        return None
    if name == 'reverse':
        items.reverse()
        return None
    if name == 'index':
        c = ctx()
        for j, e in enumerate(items):
            if e is args[0] or c.truth(v_eq(interp, args[0], e)):
                return j
        raise PyExc('ValueError', 'not in list', True)
    if name == 'count':
        c = ctx()
        n = 0
        for e in items:
            if e is args[0] or c.truth(v_eq(interp, args[0], e)):
                n += 1
        return n
    if name == 'remove':
        c = ctx()
        for j, e in enumerate(items):
            if e is args[0] or c.truth(v_eq(interp, args[0], e)):
                del items[j]
                return None
        raise PyExc('ValueError', 'list.remove(x): x not in list', True)
    if name == 'sort':
        r = _b_sorted(interp, ctx(), [lst], kwargs)
        lst.items[:] = r.items
        return None
    if name == '__len__':
        return len(items)
    if name == '__getitem__':
        return interp.getitem(lst, args[0])
    raise Unsupported('list.%s' % name)


def dict_method(interp, d, name, args, kwargs):
    if name == 'items':
        return PList([(k, v) for k, v in zip(d.keys, d.vals)])
    if name == 'keys':
        return PList(list(d.keys))
    if name == 'values':
        return PList(list(d.vals))
    if name == 'get':
        j = dict_find(interp, d, args[0])
        if j < 0:
            return args[1] if len(args) > 1 else None
        return d.vals[j]
    if name == 'pop':
        j = dict_find(interp, d, args[0])
        if j < 0:
            if len(args) > 1:
                return args[1]
            raise PyExc('KeyError', repr(args[0]), True)
        v = d.vals[j]
        del d.keys[j]
        del d.vals[j]
        return v
    if name == 'copy':
        n = PDict()
        n.keys = list(d.keys)
        n.vals = list(d.vals)
        return n
    if name == 'clear':
        del d.keys[:]
        del d.vals[:]
        return None
    if name == 'update':
        src = args[0]
        for k, v in zip(list(src.keys), list(src.vals)):
            dict_setitem(interp, d, k, v)
        return None
    if name == 'setdefault':
        j = dict_find(interp, d, args[0])
        if j < 0:
            dv = args[1] if len(args) > 1 else None
            d.keys.append(args[0])
            d.vals.append(dv)
            return dv
        return d.vals[j]
    if name == '__len__':
        return len(d.keys)
    if name == '__contains__':
        return v_in(interp, args[0], d)
    raise Unsupported('dict.%s' % name)


def tuple_method(interp, t, name, args, kwargs):
    if name == 'index':
        c = ctx()
        for j, e in enumerate(t):
            if c.truth(v_eq(interp, args[0], e)):
                return j
        raise PyExc('ValueError', 'not in tuple', True)
    if name == 'count':
        c = ctx()
        return sum(1 for e in t if c.truth(v_eq(interp, args[0], e)))
    if name == '__len__':
        return len(t)
    raise Unsupported('tuple.%s' % name)


def call_method(interp, recv, name, args, kwargs):
    from . import regex_model as _rm
    if isinstance(recv, _rm.MatchObj):
        if name == 'group':
            if len(args) > 1:
                return tuple(recv.group(a) for a in args)
            return recv.group(*args)
        if name == 'groups':
            return tuple(recv.group(i) for i in range(1, recv.ngroups + 1))
        if name in ('start', 'end'):
            g = args[0] if args else 0
            sp = recv.span if g == 0 else recv.groups.get(g, (-1, -1))
            return sp[0] if name == 'start' else sp[1]
        raise Unsupported('match.%s' % name)
    if isinstance(recv, PObj) and (recv.cls == 'AnsiStr' or interp.p.is_subclass(recv.cls, 'str')):
        return str_method(interp, recv.attrs['__payload__'], name, args, kwargs)
    if isinstance(recv, PObj) and recv.cls.startswith('__'):
        hook = interp.p.summaries.get(recv.cls + '.' + name)
        if hook is not None:
            return hook(interp, recv, args, kwargs)
        raise Unsupported('%s.%s' % (recv.cls, name))
    if is_str(recv):
        return str_method(interp, recv, name, args, kwargs)
    if isinstance(recv, PList):
        return list_method(interp, recv, name, args, kwargs)
    if isinstance(recv, PDict):
        return dict_method(interp, recv, name, args, kwargs)
    if isinstance(recv, tuple):
        return tuple_method(interp, recv, name, args, kwargs)
    if isinstance(recv, PIter) and name == '__next__':
        return _b_next(interp, ctx(), [recv], {})
    if is_int(recv) and name == '__repr__':
        return to_str(interp, recv)
    if isinstance(recv, UStr):
        from .summaries import AbsAny as _AbsAny
        ts = [recv.term]
        for a in list(args) + [kwargs[k] for k in sorted(kwargs)]:
            ts.extend(_arg_term(interp, a))
        from . import abstract as _ab
        f = z3.Function('ustr.%s/%d' % (name, len(ts)), *([t.sort() for t in ts] + [_ab.ANY]))
        return _AbsAny(f(*ts))
    raise Unsupported('method %s on %s' % (name, type(recv).__name__))
