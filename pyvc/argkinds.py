"""Typed symbolic arguments for delegation/query contracts (typed so that counter-models replay natively)."""
from . import sym, abstract as ab, summaries
from .sym import PObj, PList, PDict, PSlice


def mk_arg(c, kind, name):
    """symbolic argument of a given kind (typed so that counter-models can be replayed natively)"""
    if kind == 'int':
        return c.named_int(name)
    if kind == 'none':
        return None
    if kind == 'optint':
        return c.named_int(name) if c.choice(2) else None
    if kind == 'bool':
        return c.named_bool(name)
    if kind == 'str':
        return sym.s_opaque(c.opaque_text('A' + name))
    if kind == 'optstr':
        return sym.s_opaque(c.opaque_text('A' + name)) if c.choice(2) else None
    if kind == 'char':
        return sym.s_from_chars([c.named_int('cp_' + name, 32, 126)])
    if kind == 'settings':
        S = c.opaque_text('S' + name, 1)
        S.kind = 'setting'
        return PList([PObj('AnsiSetting', {'_str': sym.s_opaque(S)})])
    if kind == 'optsettings':
        if c.choice(2):
            return mk_arg(c, 'settings', name)
        return None
    if kind == 'operand':
        k = c.choice(3)
        if k == 0:
            return ab.abstract_ansistring(c, 'op' + name)[0]
        if k == 1:
            T = c.opaque_text('Top' + name)
            T.escfree = True
            return sym.s_opaque(T)
        inner = ab.abstract_ansistring(c, 'ow' + name)[0]
        return PObj('AnsiStr', {'__payload__': sym.s_opaque(c.opaque_text('Pay' + name)), '_s': inner})
    if kind == 'index':
        k = c.choice(2)
        if k == 0:
            return c.named_int(name)
        return PSlice(mk_arg(c, 'optint', name + '_a'), mk_arg(c, 'optint', name + '_b'), None)
    if kind == 'any':
        import z3
        return summaries.AbsAny(z3.Const('arg_' + name, ab.ANY))
    raise ValueError(kind)




# ---------------------------------------------------------------------------------------------
# native pools: small concrete values per argument kind, used to look for a real failing input when the solver's
# counter-model (which interprets uninterpreted functions freely) does not reproduce on the real code

def native_receivers(envr):
    A = envr.program.modules['ansi_string'].native.AnsiString
    out = []
    for text, fmts in (('', []), ('ab', [('31', 0, 2)]), ('abab', [('31', 0, 2), ('1', 1, 4)]),
                       (' aXb\tXa ', [('4', 1, 3), ('32', 2, 7), ('1', 0, 1)]), ('Ab ab AB', [('35', 3, 5)]),
                       ('xabbbb', [('31', 1, 4)]), ('aaaa', [('31', 0, 1), ('1', 2, 3)]),
                       ('l1\nl2\r\n\nl4 \t', [('32', 1, 6), ('4', 4, 9)]),
                       ('\u0130stanbul tax Mi\u017fs Miss', [('31', 0, 9), ('1', 5, 14)])):
        s = A(text)
        for f, a, b in fmts:
            s.apply_formatting(f, a, b)
        out.append(s)
    return out


def native_pool(envr, kind):
    m = envr.program.modules['ansi_string'].native
    ints = [0, 1, 2, 3, -1, -2, 5, 9]
    strs = ['', 'a', 'b', 'ab', 'ba', ' ', 'X', 'bb', '\t', 'aa']
    if kind == 'none':
        return [None]
    if kind in ('int', 'smallint'):
        return ints
    if kind == 'smallcount':
        return [0, 1, 2]
    if kind == 'optint':
        return [None] + ints
    if kind == 'bool':
        return [False, True]
    if kind == 'str':
        return strs
    if kind in ('optstr', 'optchars'):
        return [None] + strs[1:]
    if kind == 'char':
        return [' ', '0', 'x']
    if kind == 'settings':
        return [[m.AnsiSetting('33')], 'bold']
    if kind == 'optsettings':
        return [None, [m.AnsiSetting('31')], 'red']
    if kind == 'operand':
        o = m.AnsiString('xy', 'bold')
        return [o, 'z', 'zy', m.AnsiStr('q', 'underline'), '']
    if kind == 'index':
        return ints[:6] + [slice(None, 2), slice(1, None), slice(1, 3), slice(-2, None), slice(None, None)]
    return [None]
