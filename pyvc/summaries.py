"""Call-by-contract summaries (DESIGN.md 2.3): engine-level statements of a callee's contract that replace
its body at a call site.  Each summary names the obligation group that establishes the contract it
assumes; `check` refuses to count a property as held when that group is not discharged in the same run.
"""
import z3
from . import sym
from .sym import (Unsupported, PyExc, PList, PDict, PObj, Rope, is_z3, i_cmp, b_and, b_or, ctx)


class PreconditionFailed(Exception):
    """a callee's precondition could not be established at a call site (the obligation is recorded)"""


def atom_esc_free(a):
    """condition under which an atom contains no ESC (0x1b) character"""
    k = a[0]
    if k == 'lit':
        return '\x1b' not in a[1]
    if k == 'chr':
        return i_cmp('!=', a[1], 27)
    if k == 'rep':
        return b_or(i_cmp('!=', a[1], 27), i_cmp('<=', a[2], 0))
    if k == 'istr':
        return True
    if k == 'opq':
        if getattr(a[1], 'escfree', False):
            return True
        return b_and(i_cmp('==', a[2], a[3]))  # only the empty slice is known to be ESC free
    return False


def esc_free(s):
    return b_and(*[atom_esc_free(a) for a in sym.atoms_of(s)])


def summ_set_ansi_str(interp, func, args, kwargs):
    """Contract P4 (obligation group C02.P4): for a text without ESC, set_ansi_str(s) leaves
    `_s == s` and `_fmts == {}`.  Used only when the text has symbolic length; concrete-length texts run
    the real tokenizer."""
    self_, s = args[0], args[1] if len(args) > 1 else kwargs['s']
    if isinstance(s, PObj) and s.cls == 'AnsiStr':
        s = s.attrs['__payload__']
    if not sym.is_str(s):
        return NotImplemented
    if sym.s_chars(s) is not None:
        return NotImplemented
    c = ctx()
    cond = esc_free(s)
    if cond is not True:
        ob = c.prove('pre:set_ansi_str:text-has-no-ESC', cond,
                     'text handed to the parsing constructor must not contain ESC (contract C02.P4)')
        if ob.status != 'discharged':
            raise PreconditionFailed('set_ansi_str')
    self_.attrs['_s'] = s
    self_.attrs['_fmts'] = PDict()
    return None


DEFAULT = {
    'AnsiString.set_ansi_str': summ_set_ansi_str,
}
