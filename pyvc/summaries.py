"""Call-by-contract summaries (DESIGN.md 2.3): engine-level statements of a callee's contract that replace
its body at a call site.  Each summary names the obligation group that establishes the contract it
assumes; `check` refuses to count a property as held when that group is not discharged in the same run.
"""
import z3
from . import sym
from .sym import (Unsupported, PyExc, PList, PDict, PObj, Rope, is_z3, i_cmp, b_and, b_or, ctx)


class PreconditionFailed(Exception):
    """a callee's precondition could not be established at a call site (the obligation is recorded)"""


def atom_esc_free(a):
    """condition under which an atom contains no ESC (0x1b) character"""
    k = a[0]
    if k == 'lit':
        return '\x1b' not in a[1]
    if k == 'chr':
        return i_cmp('!=', a[1], 27)
    if k == 'rep':
        return b_or(i_cmp('!=', a[1], 27), i_cmp('<=', a[2], 0))
    if k == 'istr':
        return True
    if k == 'opq':
        if getattr(a[1], 'escfree', False):
            return True
        return b_and(i_cmp('==', a[2], a[3]))  # only the empty slice is known to be ESC free
    return False


def esc_free(s):
    return b_and(*[atom_esc_free(a) for a in sym.atoms_of(s)])


def summ_set_ansi_str(interp, func, args, kwargs):
    """Contract P4 (obligation group C02.P4): for a text without ESC, set_ansi_str(s) leaves
    `_s == s` and `_fmts == {}`.  Used only when the text has symbolic length; concrete-length texts run
    the real tokenizer."""
    self_, s = args[0], args[1] if len(args) > 1 else kwargs['s']
    if isinstance(s, PObj) and s.cls == 'AnsiStr':
        s = s.attrs['__payload__']
    if not sym.is_str(s):
        return NotImplemented
    if sym.s_chars(s) is not None:
        return NotImplemented
    c = ctx()
    cond = esc_free(s)
    if cond is not True:
        ob = c.prove('pre:set_ansi_str:text-has-no-ESC', cond,
                     'text handed to the parsing constructor must not contain ESC (contract C02.P4)')
        if ob.status != 'discharged':
            raise PreconditionFailed('set_ansi_str')
    self_.attrs['_s'] = s
    self_.attrs['_fmts'] = PDict()
    return None


_SGR_ITE = {}
_ITE_CACHE = {}


def summ_slice_val(interp, func, args, kwargs):
    """Contract SL (obligation group SL): _slice_val_to_idx(val, default) is Python's slice normalisation of
    val against len(self._s).  The result is a fresh integer constrained by that equation, so a caller's
    paths do not multiply with the callee's case split."""
    self_, val = args[0], args[1]
    default = args[2] if len(args) > 2 else kwargs['default']
    if val is None:
        return default
    c = ctx()
    n = sym.s_len(self_.attrs['_s'])
    if not sym.is_z3(val) and not sym.is_z3(n):
        return max(val + n, 0) if val < 0 else min(val, n)
    key = ('sl', sym._lin(val), sym._lin(n))
    ent = _ITE_CACHE.get(key)
    if ent is None:
        r = sym.int_const('idx!%d' % len(_ITE_CACHE))
        v_, n_ = sym.Z(val), sym.Z(n)
        eqn = sym.Z(r) == z3.If(v_ < 0, z3.If(v_ + n_ < 0, 0, v_ + n_), z3.If(v_ > n_, n_, v_))
        ent = (r, eqn)
        _ITE_CACHE[key] = ent
    r, eqn = ent
    c.assume(eqn)
    c.assume(sym.i_cmp('>=', r, 0))
    c.assume(sym.i_cmp('<=', r, n))
    return r



def _sgr_ite(interp, which, code):
    """spec.sgr_group / spec.sgr_kind on a symbolic code: an ITE chain read from the spec table itself"""
    table = interp.p.modules['spec'].native.SGR
    if not sym.is_z3(code):
        e = table.get(code)
        return (-1 if which == 0 else 0) if e is None else e[which]
    ck = (which, sym._lin(code))
    if ck in _SGR_ITE:
        return _SGR_ITE[ck]
    x = sym.Z(code)
    runs = []
    for cd in sorted(table):
        v = table[cd][which]
        if runs and runs[-1][1] == cd - 1 and runs[-1][2] == v:
            runs[-1][1] = cd
        else:
            runs.append([cd, cd, v])
    e = z3.IntVal(-1 if which == 0 else 0)
    for lo, hi, v in reversed(runs):
        cond = (x == lo) if lo == hi else z3.And(x >= lo, x <= hi)
        e = z3.If(cond, z3.IntVal(v), e)
    _SGR_ITE[ck] = sym.atom(e)
    return _SGR_ITE[ck]


def summ_sgr_group(interp, func, args, kwargs):
    return _sgr_ite(interp, 0, args[0])


def summ_sgr_kind(interp, func, args, kwargs):
    return _sgr_ite(interp, 1, args[0])


MODULAR = {
    'SL': {'AnsiString._slice_val_to_idx': summ_slice_val},
}

DEFAULT = {
    'sgr_group': summ_sgr_group,
    'sgr_kind': summ_sgr_kind,
    'AnsiString.set_ansi_str': summ_set_ansi_str,
}
