"""Call-by-contract summaries (DESIGN.md 2.3): engine-level statements of a callee's contract that replace
its body at a call site.  Each summary names the obligation group that establishes the contract it
assumes; `check` refuses to count a property as held when that group is not discharged in the same run.
"""
import z3
from . import sym
from .sym import (Unsupported, PyExc, PList, PDict, PObj, Rope, is_z3, i_cmp, b_and, b_or, ctx)


class PreconditionFailed(Exception):
    """a callee's precondition could not be established at a call site (the obligation is recorded)"""


def atom_esc_free(a):
    """condition under which an atom contains no ESC (0x1b) character"""
    k = a[0]
    if k == 'lit':
        return '\x1b' not in a[1]
    if k == 'chr':
        return i_cmp('!=', a[1], 27)
    if k == 'rep':
        return b_or(i_cmp('!=', a[1], 27), i_cmp('<=', a[2], 0))
    if k == 'istr':
        return True
    if k == 'opq':
        if getattr(a[1], 'escfree', False):
            return True
        return b_and(i_cmp('==', a[2], a[3]))  # only the empty slice is known to be ESC free
    return False


def esc_free(s):
    return b_and(*[atom_esc_free(a) for a in sym.atoms_of(s)])


def summ_set_ansi_str(interp, func, args, kwargs):
    """Contract P4 (obligation group C02.P4): for a text without ESC, set_ansi_str(s) leaves
    `_s == s` and `_fmts == {}`.  Used only when the text has symbolic length; concrete-length texts run
    the real tokenizer."""
    self_, s = args[0], args[1] if len(args) > 1 else kwargs['s']
    if isinstance(s, PObj) and s.cls == 'AnsiStr':
        s = s.attrs['__payload__']
    if not sym.is_str(s):
        return NotImplemented
    if sym.s_chars(s) is not None:
        return NotImplemented
    c = ctx()
    cond = esc_free(s)
    if cond is not True:
        ob = c.prove('pre:set_ansi_str:text-has-no-ESC', cond,
                     'text handed to the parsing constructor must not contain ESC (contract C02.P4)')
        if ob.status != 'discharged':
            raise PreconditionFailed('set_ansi_str')
    self_.attrs['_s'] = s
    self_.attrs['_fmts'] = PDict()
    return None


_SGR_ITE = {}
_ITE_CACHE = {}


def summ_slice_val(interp, func, args, kwargs):
    """Contract SL (obligation group SL): _slice_val_to_idx(val, default) is Python's slice normalisation of
    val against len(self._s).  The result is a fresh integer constrained by that equation, so a caller's
    paths do not multiply with the callee's case split."""
    self_, val = args[0], args[1]
    default = args[2] if len(args) > 2 else kwargs['default']
    if val is None:
        return default
    c = ctx()
    n = sym.s_len(self_.attrs['_s'])
    if not sym.is_z3(val) and not sym.is_z3(n):
        return max(val + n, 0) if val < 0 else min(val, n)
    key = ('sl', sym._lin(val), sym._lin(n))
    ent = _ITE_CACHE.get(key)
    if ent is None:
        r = sym.int_const('idx!%d' % len(_ITE_CACHE))
        v_, n_ = sym.Z(val), sym.Z(n)
        eqn = sym.Z(r) == z3.If(v_ < 0, z3.If(v_ + n_ < 0, 0, v_ + n_), z3.If(v_ > n_, n_, v_))
        ent = (r, eqn)
        _ITE_CACHE[key] = ent
    r, eqn = ent
    c.assume(eqn)
    c.assume(sym.i_cmp('>=', r, 0))
    c.assume(sym.i_cmp('<=', r, n))
    return r



def _sgr_ite(interp, which, code):
    """spec.sgr_group / spec.sgr_kind on a symbolic code: an ITE chain read from the spec table itself"""
    table = interp.p.modules['spec'].native.SGR
    if not sym.is_z3(code):
        e = table.get(code)
        return (-1 if which == 0 else 0) if e is None else e[which]
    ck = (which, sym._lin(code))
    if ck in _SGR_ITE:
        return _SGR_ITE[ck]
    x = sym.Z(code)
    runs = []
    for cd in sorted(table):
        v = table[cd][which]
        if runs and runs[-1][1] == cd - 1 and runs[-1][2] == v:
            runs[-1][1] = cd
        else:
            runs.append([cd, cd, v])
    e = z3.IntVal(-1 if which == 0 else 0)
    for lo, hi, v in reversed(runs):
        cond = (x == lo) if lo == hi else z3.And(x >= lo, x <= hi)
        e = z3.If(cond, z3.IntVal(v), e)
    _SGR_ITE[ck] = sym.atom(e)
    return _SGR_ITE[ck]


def summ_sgr_group(interp, func, args, kwargs):
    return _sgr_ite(interp, 0, args[0])


def summ_sgr_kind(interp, func, args, kwargs):
    return _sgr_ite(interp, 1, args[0])


MODULAR = {
    'SL': {'AnsiString._slice_val_to_idx': summ_slice_val},
}

DEFAULT = {
    'payload_of': None,
    'sgr_group': summ_sgr_group,
    'sgr_kind': summ_sgr_kind,
    'AnsiString.set_ansi_str': summ_set_ansi_str,
}


# =============================================================================================
# Abstract (client-level) contracts: active in groups that declare use=('ABS',)
from . import abstract as ab  # noqa: E402
from . import builtins_model as bm  # noqa: E402


def _operand(interp, value):
    """(text, table term) of a right operand / copy source, or None when it is not abstractly known"""
    if isinstance(value, PObj) and value.cls == 'AnsiStr':
        value = value.attrs['_s']
    if isinstance(value, PObj) and value.cls == 'AnsiString':
        t = ab.table_term(value)
        if t is None:
            return None
        return value.attrs['_s'], t
    return None


def abs_getitem(interp, func, args, kwargs):
    """Contract of AnsiString.__getitem__ (established by groups SL, G2, G2e): IndexError exactly for an out of
    range integer, ValueError for a step other than 1, TypeError for other index types; otherwise a fresh value
    whose text is the selected text and whose table is tbl_slice(t, lo, hi)."""
    self_, val = args[0], args[1]
    if not isinstance(self_, PObj) or ab.table_term(self_) is None or not isinstance(self_.attrs['_fmts'], ab.AbsTbl):
        return NotImplemented
    c = ctx()
    ab.install(c)
    t = ab.table_term(self_)
    text = self_.attrs['_s']
    n = sym.s_len(text)
    if isinstance(val, sym.PSlice):
        if not bm.step_is_one(val.step):
            raise PyExc('ValueError', 'Step other than 1 not supported')
        lo, hi = sym.slice_bounds(val.start, val.stop, n)
    elif sym.is_int(val) and not isinstance(val, bool):
        if not c.truth(sym.b_and(sym.i_cmp('>=', val, sym.i_neg(n)), sym.i_cmp('<', val, n))):
            raise PyExc('IndexError', 'string index out of range', True)
        lo = sym.i_add(val, n) if c.truth(sym.i_cmp('<', val, 0)) else val
        hi = sym.i_add(lo, 1)
    else:
        raise PyExc('TypeError', 'Invalid type for __getitem__')
    nt = ab.T_SLICE(t, sym.Z(lo), sym.Z(hi))
    ab.wf_fact(c, [(t, n)], nt, sym.i_sub(hi, lo))
    new = PObj('AnsiString', {'_fmts': ab.AbsTbl(nt), '_s': sym.s_slice(text, lo, hi)})
    return new


def abs_iadd(interp, func, args, kwargs):
    """Contract of AnsiString.__iadd__ (group A1): text concatenated, table tbl_cat(ta, len_a, tb), returns self,
    right operand untouched; TypeError for operands that are neither str nor AnsiString."""
    self_, value = args[0], args[1]
    if not isinstance(self_, PObj):
        return NotImplemented
    c = ctx()
    ta = ab.table_term(self_)
    if ta is None:
        return NotImplemented
    if sym.is_str(value):
        cond = esc_free(value)
        if cond is not True:
            if sym.s_chars(value) is not None:
                return NotImplemented  # concrete-length text: run the real code (it parses the text)
            ob = c.prove('pre:__iadd__:str-operand-has-no-ESC', cond)
            if ob.status != 'discharged':
                raise PreconditionFailed('__iadd__')
        vtext, tb = value, ab.EMPTY
    else:
        op = _operand(interp, value)
        if op is None:
            if isinstance(value, PObj) and value.cls in ('AnsiString', 'AnsiStr'):
                return NotImplemented
            raise PyExc('TypeError', 'value is invalid type')
        vtext, tb = op
    if not isinstance(self_.attrs['_fmts'], ab.AbsTbl) and tb is ab.EMPTY and ta is ab.EMPTY:
        pass
    ab.install(c)
    na = sym.s_len(self_.attrs['_s'])
    nb = sym.s_len(vtext)
    nt = ab.T_CAT(ta, sym.Z(na), tb)
    ab.wf_fact(c, [(ta, na), (tb, nb)], nt, sym.i_add(na, nb))
    self_.attrs['_s'] = sym.s_concat(self_.attrs['_s'], vtext)
    self_.attrs['_fmts'] = ab.AbsTbl(nt)
    return self_


def abs_init(interp, func, args, kwargs):
    """Contract of the copying constructor AnsiString(src, *settings) for an AnsiString / AnsiStr source (group V5):
    same text, structurally equal table held in new containers; then apply_formatting(settings) if any."""
    self_ = args[0]
    src = args[1] if len(args) > 1 else kwargs.get('s', '')
    settings = tuple(args[2:])
    if sym.is_str(src) and len(settings) == 1 and isinstance(settings[0], ab.AbsSettings):
        # AnsiString(text, other.ansi_settings_at(i)): contract chain N1 (the list reports view(i)), F2 (setting objects
        # pass the scrubber unchanged), F3 (applied over the whole text on an empty table)
        c = ctx()
        cond = esc_free(src)
        if cond is not True and not c.truth(cond):
            return NotImplemented
        ab.install(c)
        n = sym.s_len(src)
        nt = ab.T_FILL(settings[0].term, sym.Z(n))
        c.assume(ab.WFP(nt, sym.Z(n)))
        self_.attrs['_s'] = src
        self_.attrs['_fmts'] = ab.AbsTbl(nt)
        return None
    op = _operand(interp, src) if isinstance(src, PObj) else None
    if op is None:
        return NotImplemented
    if isinstance(src, PObj) and src.cls == 'AnsiStr':
        src = src.attrs['_s']
    if not isinstance(src.attrs['_fmts'], ab.AbsTbl):
        return NotImplemented
    c = ctx()
    ab.install(c)
    text, t = op
    self_.attrs['_s'] = text
    self_.attrs['_fmts'] = ab.AbsTbl(t)
    if settings:
        m = interp.p.find_member('AnsiString', 'apply_formatting')
        interp.invoke(m, [self_, settings], {})
    return None


def abs_settings_at(interp, func, args, kwargs):
    """Contract of ansi_settings_at (group N1): [] outside 0..len-1, else the settings active on that character in order"""
    self_, idx = args[0], args[1] if len(args) > 1 else kwargs['idx']
    if not isinstance(self_, PObj) or not isinstance(self_.attrs.get('_fmts'), ab.AbsTbl):
        return NotImplemented
    c = ctx()
    ab.install(c)
    n = sym.s_len(self_.attrs['_s'])
    if c.truth(sym.b_and(sym.i_cmp('>=', idx, 0), sym.i_cmp('<', idx, n))):
        return ab.AbsSettings(ab.VT(self_.attrs['_fmts'].term, sym.Z(idx)))
    return PList([])


def _norm_range(self_, start, end):
    n = sym.s_len(self_.attrs['_s'])
    lo, hi = sym.slice_bounds(start, end, n)
    return n, lo, hi


def abs_apply(interp, func, args, kwargs):
    """Contract of apply_formatting (groups SL, F3) on an abstract table, for settings that scrub without error:
    text unchanged; no-op for empty settings or an empty range; otherwise table tbl_apply(...)."""
    names = ['self', 'settings', 'start', 'end', 'topmost']
    vals = dict(zip(names, args))
    vals.update(kwargs)
    self_ = vals['self']
    if not ab.is_abstract(self_):
        return NotImplemented
    c = ctx()
    ab.install(c)
    settings = vals['settings']
    start = vals.get('start', 0)
    end = vals.get('end', None)
    topmost = vals.get('topmost', True)
    n, lo, hi = _norm_range(self_, start, end)
    if not interp.truth(settings):
        return None
    if c.truth(sym.i_cmp('<=', hi, lo)):
        return None
    t = ab.table_term(self_)
    nt = ab.T_APPLY(t, sym.Z(n), ab.any_term(settings), sym.Z(lo), sym.Z(hi),
                    sym.Z(topmost) if not isinstance(topmost, bool) else z3.BoolVal(topmost))
    ab.wf_fact(c, [(t, n)], nt, n)
    self_.attrs['_fmts'] = ab.AbsTbl(nt)
    return None


def abs_remove(interp, func, args, kwargs):
    """Contract of remove_formatting (groups SL, M2) on an abstract table."""
    names = ['self', 'settings', 'start', 'end']
    vals = dict(zip(names, args))
    vals.update(kwargs)
    self_ = vals['self']
    if not ab.is_abstract(self_):
        return NotImplemented
    c = ctx()
    ab.install(c)
    settings = vals.get('settings', None)
    start = vals.get('start', 0)
    end = vals.get('end', None)
    n, lo, hi = _norm_range(self_, start, end)
    if settings is not None and not interp.truth(settings):
        return None
    if c.truth(sym.i_cmp('<=', hi, lo)):
        return None
    t = ab.table_term(self_)
    nt = ab.T_REMOVE(t, sym.Z(n), ab.any_term(settings), sym.Z(lo), sym.Z(hi))
    ab.wf_fact(c, [(t, n)], nt, n)
    self_.attrs['_fmts'] = ab.AbsTbl(nt)
    return None


RENDER = z3.Function('render', ab.TBL, bm.STRSORT, ab.ANY, sym.BoolSort, sym.BoolSort, sym.BoolSort, bm.STRSORT)


def abs_to_str(interp, func, args, kwargs):
    """to_str on an abstract value: an uninterpreted function of the table, the text and the arguments
    (rendering itself is the subject of C01; here only *which* value is rendered with *which* arguments matters)."""
    names = ['self', 'format_spec', 'optimize', 'reset_start', 'reset_end']
    vals = dict(zip(names, args))
    vals.update(kwargs)
    self_ = vals['self']
    if not ab.is_abstract(self_):
        return NotImplemented
    t = ab.table_term(self_)

    def bz(v, d):
        v = vals.get(v, d)
        return z3.BoolVal(v) if isinstance(v, bool) else sym.Z(v)
    r = RENDER(t, bm.str_term(self_.attrs['_s']), ab.any_term(vals.get('format_spec', None)), bz('optimize', True),
               bz('reset_start', False), bz('reset_end', True))
    return bm.UStr(r)


def twin_view_texts(interp, func, args, kwargs):
    v, i = args
    if not isinstance(v, PObj) or not isinstance(v.attrs.get('_fmts'), ab.AbsTbl):
        return NotImplemented
    c = ctx()
    n = sym.s_len(v.attrs['_s'])
    if c.truth(sym.b_and(sym.i_cmp('>=', i, 0), sym.i_cmp('<', i, n))):
        return ab.AbsVal(ab.VT(v.attrs['_fmts'].term, sym.Z(i)))
    return ab.AbsVal(ab.NIL)


def twin_wf_ok(interp, func, args, kwargs):
    v = args[0]
    if not isinstance(v, PObj) or not isinstance(v.attrs.get('_fmts'), ab.AbsTbl):
        return NotImplemented
    return ab.WFP(v.attrs['_fmts'].term, sym.Z(sym.s_len(v.attrs['_s'])))


def twin_payload_of(interp, func, args, kwargs):
    x = args[0]
    if isinstance(x, PObj) and x.cls == 'AnsiStr':
        return x.attrs['__payload__']
    if sym.is_str(x):
        return x
    raise Unsupported('payload_of(%r)' % (x,))


def twin_same_value(interp, func, args, kwargs):
    """same_value(v, w): equal text and structurally equal table"""
    v, w = args
    tv, tw = ab.table_term(v), ab.table_term(w)
    if tv is None or tw is None or not (isinstance(v.attrs['_fmts'], ab.AbsTbl) or isinstance(w.attrs['_fmts'], ab.AbsTbl)):
        return NotImplemented
    r = bm.v_eq(interp, v.attrs['_s'], w.attrs['_s'])
    if isinstance(r, sym.Approx):
        r = r.cond
    return sym.b_and(r, True if tv.eq(tw) else (tv == tw))


def abs_set_ansi_str(interp, func, args, kwargs):
    """set_ansi_str on a text without ESC, in the abstract world: the text itself and the (abstract) empty table"""
    r = summ_set_ansi_str(interp, func, args, kwargs)
    if r is NotImplemented:
        return r
    c = ctx()
    ab.install(c)
    self_ = args[0]
    ab.empty_wf(c, sym.s_len(self_.attrs['_s']))
    self_.attrs['_fmts'] = ab.AbsTbl(ab.EMPTY)
    return None


def twin_separate(interp, func, args, kwargs):
    v, w = args
    if not (ab.is_abstract(v) or ab.is_abstract(w)):
        return NotImplemented
    return v is not w and v.attrs['_fmts'] is not w.attrs['_fmts']


MODULAR['ABS'] = {
    'separate': twin_separate,
    'eq_value': twin_same_value,
    'AnsiString.__getitem__': abs_getitem,
    'AnsiString.__iadd__': abs_iadd,
    'AnsiString.__init__': abs_init,
    'AnsiString.ansi_settings_at': abs_settings_at,
    'AnsiString.apply_formatting': abs_apply,
    'AnsiString.remove_formatting': abs_remove,
    'AnsiString.to_str': abs_to_str,
    'view_texts': twin_view_texts,
    'wf_ok': twin_wf_ok,
    'same_value': twin_same_value,
}


# =============================================================================================
# Generic method summary for the wrapper (AnsiStr) proofs: every AnsiString method is an uninterpreted state
# transformer  (table, text, arguments) -> (table', text', value).  What is proved with it is the *wiring* of a
# caller: which method it calls, on which object (the receiver or a private copy), with which arguments in which
# order, and what it does with the result.  That the in-place form and the copying form of a method compute the same
# transformer is obligation group V3 (on the real bodies).

MUTATORS_RETURNING_NONE = ('apply_formatting', 'remove_formatting', 'apply_formatting_for_match', 'format_matching',
                           'unformat_matching', 'simplify', 'clear_formatting', 'assign_str', 'set_ansi_str',
                           '_shift_settings_idx')
RETURNS_NEW_VALUE = ('__getitem__', 'copy', '__add__')
RETURNS_TRIPLE = ('partition', 'rpartition')
RETURNS_LIST = ('split', 'rsplit', 'splitlines', '_split')


class AbsAny:
    """an engine value known only as an uninterpreted term (result of an uninterpreted method)"""
    __slots__ = ('term',)

    def __init__(self, term):
        self.term = term


def _encode_arg(interp, v):
    if isinstance(v, AbsAny):
        return [v.term]
    if isinstance(v, bm.UStr):
        return [v.term]
    if isinstance(v, PObj) and v.cls == 'AnsiString' and ab.table_term(v) is not None:
        return [ab.table_term(v), bm.str_term(v.attrs['_s'])]
    if isinstance(v, PObj) and v.cls == 'AnsiStr' and isinstance(v.attrs.get('_s'), PObj):
        return _encode_arg(interp, v.attrs['_s'])
    if v is None or isinstance(v, bool) or sym.is_int(v) or sym.is_bool(v) or sym.is_str(v):
        return bm._arg_term(interp, v)
    if isinstance(v, (PList, tuple)):
        items = v.items if isinstance(v, PList) else v
        out = [z3.IntVal(len(items) if isinstance(v, tuple) else -1 - len(items))]
        for x in items:
            out.extend(_encode_arg(interp, x))
        return out
    if isinstance(v, PObj) and v.cls == 'AnsiSetting':
        return [z3.Function('any_setting', bm.STRSORT, ab.ANY)(bm.str_term(v.attrs['_str']))]
    if isinstance(v, sym.PSlice):
        return _encode_arg(interp, (v.start, v.stop, v.step))
    return [ab.any_term(v)]


def abs_method(interp, func, args, kwargs):
    if func.cls != 'AnsiString' or func.kind != 'method' or not args:
        return NotImplemented
    self_ = args[0]
    if not ab.is_abstract(self_):
        return NotImplemented
    c = ctx()
    name = func.name
    if name in ('__str__', '__repr__', '__format__', '__init__', '__iter__', 'copy', '__add__', 'expandtabs', 'zfill'):
        return NotImplemented
    a = func.node.args
    params = [x.arg for x in a.args][1:]
    vals = {}
    rest = list(args[1:])
    for pn in params:
        if rest:
            vals[pn] = rest.pop(0)
    extra = tuple(rest)
    if extra and a.vararg is None:
        raise PyExc('TypeError', '%s() takes %d positional arguments' % (name, len(params) + 1), True)
    for k, v in kwargs.items():
        if k in vals:
            raise PyExc('TypeError', 'multiple values for argument %s' % k, True)
        vals[k] = v
    allp = params + [x.arg for x in a.kwonlyargs]
    for k in vals:
        if k not in allp:
            raise PyExc('TypeError', 'unexpected keyword argument %s' % k, True)
    # defaults
    ndef = len(a.defaults)
    for i, pn in enumerate(params):
        if pn not in vals:
            j = i - (len(params) - ndef)
            if j < 0:
                raise PyExc('TypeError', 'missing argument %s' % pn, True)
            vals[pn] = interp.default_value(func, a.defaults[j])
    for i, x in enumerate(a.kwonlyargs):
        if x.arg not in vals:
            vals[x.arg] = interp.default_value(func, a.kw_defaults[i])
    inplace = vals.pop('inplace', None)
    terms = [ab.table_term(self_), bm.str_term(self_.attrs['_s'])]
    for pn in allp:
        if pn == 'inplace':
            continue
        terms.extend(_encode_arg(interp, vals[pn]))
    if a.vararg is not None:
        terms.append(z3.IntVal(len(extra)))
        for v in extra:
            terms.extend(_encode_arg(interp, v))
    sorts = [t.sort() for t in terms]
    key = 'M_%s_%d' % (name, len(terms))

    def new_state(tag=''):
        ft = z3.Function(key + tag + '_tbl', *(sorts + [ab.TBL]))
        fs = z3.Function(key + tag + '_txt', *(sorts + [bm.STRSORT]))
        return ab.AbsTbl(ft(*terms)), bm.UStr(fs(*terms))

    if 'inplace' in allp:
        tb, tx = new_state()
        if interp.truth(inplace):
            target = self_
        else:
            target = PObj('AnsiString')
        target.attrs['_fmts'] = tb
        target.attrs['_s'] = tx
        return target
    if name in MUTATORS_RETURNING_NONE:
        tb, tx = new_state()
        self_.attrs['_fmts'] = tb
        self_.attrs['_s'] = tx
        return None
    if name == '__iadd__':
        tb, tx = new_state()
        self_.attrs['_fmts'] = tb
        self_.attrs['_s'] = tx
        return self_
    if name in RETURNS_NEW_VALUE:
        tb, tx = new_state()
        return PObj('AnsiString', {'_fmts': tb, '_s': tx})
    if name in RETURNS_TRIPLE:
        out = []
        for i in range(3):
            tb, tx = new_state('_%d' % i)
            out.append(PObj('AnsiString', {'_fmts': tb, '_s': tx}))
        return tuple(out)
    if name in RETURNS_LIST:
        raise Unsupported('list-valued method on an abstract receiver')
    if name in ('__iter__',):
        return NotImplemented
    fr = z3.Function(key + '_ret', *(sorts + [ab.ANY]))
    return AbsAny(fr(*terms))


class _GenericTable(dict):
    """summary table that answers for every AnsiString.* method"""

    def get(self, k, d=None):
        if k in self:
            return dict.get(self, k)
        if isinstance(k, str) and k.startswith('AnsiString.') and k not in ('AnsiString.__init__', 'AnsiString.__len__',
                                                                              'AnsiString.base_str'):
            return abs_method
        return d


MODULAR['GENERIC'] = {
    'AnsiString.set_ansi_str': abs_set_ansi_str,
    'separate': twin_separate,
    'eq_value': twin_same_value,
    'AnsiString.__init__': abs_init,
    'AnsiString.to_str': abs_to_str,
    'view_texts': twin_view_texts,
    'wf_ok': twin_wf_ok,
    'same_value': twin_same_value,
    '*': abs_method,
}

DEFAULT['payload_of'] = twin_payload_of

from . import terminal as _terminal  # noqa: E402
DEFAULT.update(_terminal.TWINS)


def summ_setting_valid(interp, func, args, kwargs):
    """Contract K1 (group K1): AnsiSetting.valid is True exactly when no character of the text is in 0x40-0x7E.
    Decided directly on ropes made of literals, str(int) atoms and single characters."""
    self_ = args[0]
    t = self_.attrs.get('_str')
    if isinstance(t, str) or not sym.is_str(t):
        return NotImplemented
    conds = []
    for a in sym.atoms_of(t):
        if a[0] == 'lit':
            if any(0x40 <= ord(ch) <= 0x7e for ch in a[1]):
                return False
        elif a[0] == 'istr':
            continue
        elif a[0] == 'chr':
            conds.append(sym.b_or(sym.i_cmp('<', a[1], 0x40), sym.i_cmp('>', a[1], 0x7e)))
        else:
            return NotImplemented
    return sym.b_and(*conds)


MODULAR['K1'] = {'AnsiSetting.valid': summ_setting_valid}


_NONFINAL = {}


def twin_all_nonfinal(interp, func, args, kwargs):
    """spec.all_nonfinal on a text of symbolic length: a boolean b with  b -> forall j. not final(t[j])  and
    not b -> final(t[w]) for a witness position w (definitional extension, no assumption about the program)"""
    t = args[0]
    if isinstance(t, str) or not sym.is_str(t) or sym.s_chars(t) is not None:
        return NotImplemented
    at = sym.atoms_of(t)
    if all(a[0] in ('lit', 'istr', 'chr') for a in at):
        conds = []
        for a in at:
            if a[0] == 'lit':
                if any(0x40 <= ord(ch) <= 0x7e for ch in a[1]):
                    return False
            elif a[0] == 'chr':
                conds.append(sym.b_or(sym.i_cmp('<', a[1], 0x40), sym.i_cmp('>', a[1], 0x7e)))
        return sym.b_and(*conds)   # str(int) consists of digits and '-' only
    if len(at) != 1 or at[0][0] != 'opq':
        return NotImplemented
    c = ctx()
    _, T, lo, hi = at[0]
    key = (T.name, sym._lin(lo), sym._lin(hi))
    if key not in _NONFINAL:
        k = len(_NONFINAL)
        _NONFINAL[key] = (z3.Bool('all_nonfinal!%d' % k), sym.int_const('final_at!%d' % k))
    b, w = _NONFINAL[key]
    T.chars_used = True

    def final(p):
        cp = z3.Select(T.chars, sym.Z(p))
        return z3.And(cp >= 0x40, cp <= 0x7e)
    j = z3.Int('j!nonfinal')
    c.axiom_once(('nonfinal', key), lambda: [
        z3.Implies(b, z3.ForAll([j], z3.Implies(z3.And(j >= sym.Z(lo), j < sym.Z(hi)), z3.Not(final(sym.atom(j)))))),
        z3.Implies(z3.Not(b), z3.And(sym.Z(w) >= sym.Z(lo), sym.Z(w) < sym.Z(hi), final(w)))])
    return b


DEFAULT['all_nonfinal'] = twin_all_nonfinal

from . import tokens as _tokens  # noqa: E402
DEFAULT['csi_tokens'] = _tokens.twin_csi_tokens
MODULAR['B1'] = {'ParsedAnsiControlSequenceString.__init__': _tokens.summ_parsed_init}

DEFAULT['__match__.start'] = bm._match_method('start')
DEFAULT['__match__.end'] = bm._match_method('end')


def twin_re_finditer(interp, func, args, kwargs):
    return bm._b_re_finditer(interp, ctx(), list(args), {})


def twin_re_escape(interp, func, args, kwargs):
    return bm._b_re_escape(interp, ctx(), list(args), {})


DEFAULT['re_finditer'] = twin_re_finditer
DEFAULT['re_escape'] = twin_re_escape


def twin_re_groups(interp, func, args, kwargs):
    from . import regex_model
    pattern, s, how = args
    m = regex_model._run(pattern, s, 0, how)
    if m is None:
        return None
    return tuple(m.group(i) for i in range(0, m.ngroups + 1))


DEFAULT['re_groups'] = twin_re_groups
