"""Symbolic interpreter for the Python subset ("PyV", DESIGN.md 2.1) over the real source files."""
import ast
import enum
import hashlib
import importlib
import os
import sys
import types

import z3

from . import sym
from .sym import (Unsupported, Infeasible, PyExc, PList, PDict, PObj, PSlice, PIter, EnumVal, Rope, Approx,
                  is_z3, is_int, is_bool, is_str, simp, Z, ctx)

BUILTIN_EXC = set(sym.EXC_PARENTS)


class ClassRef:
    __slots__ = ('name',)

    def __init__(self, name):
        self.name = name

    def __repr__(self):
        return 'ClassRef(%s)' % self.name


class FuncRef:
    __slots__ = ('func',)

    def __init__(self, func):
        self.func = func

    def __repr__(self):
        return 'FuncRef(%s)' % self.func.qualname


class BoundMethod:
    __slots__ = ('recv', 'func')

    def __init__(self, recv, func):
        self.recv = recv
        self.func = func


class BuiltinRef:
    __slots__ = ('name',)

    def __init__(self, name):
        self.name = name

    def __repr__(self):
        return 'BuiltinRef(%s)' % self.name


class BuiltinMethod:
    __slots__ = ('recv', 'name')

    def __init__(self, recv, name):
        self.recv = recv
        self.name = name


class ModuleRef:
    __slots__ = ('name',)

    def __init__(self, name):
        self.name = name


class SuperRef:
    __slots__ = ('cls', 'recv')

    def __init__(self, cls, recv):
        self.cls = cls
        self.recv = recv


class TypeVal:
    __slots__ = ('name',)

    def __init__(self, name):
        self.name = name


class Frac:
    """x / d  (true division result; only consumed by math.floor)"""
    __slots__ = ('num', 'den')

    def __init__(self, num, den):
        self.num, self.den = num, den


class NativeFn:
    """An engine-level python callable exposed to interpreted code (spec primitives, summaries)."""
    __slots__ = ('fn', 'name')

    def __init__(self, fn, name=None):
        self.fn = fn
        self.name = name or getattr(fn, '__name__', 'native')


class ReturnSig(Exception):
    def __init__(self, value):
        self.value = value


class BreakSig(Exception):
    pass


class ContinueSig(Exception):
    pass


class FuncInfo:
    def __init__(self, node, module, cls, qualname, kind, src):
        self.node = node
        self.module = module      # ModuleInfo
        self.cls = cls            # class name or None
        self.qualname = qualname
        self.kind = kind          # 'function' | 'method' | 'static' | 'property'
        self.src = src            # source segment (for hashing)
        self.name = node.name

    @property
    def sha(self):
        return hashlib.sha256(self.src.encode()).hexdigest()[:16]


class ClassInfo:
    def __init__(self, name, bases, module, node):
        self.name = name
        self.bases = bases
        self.module = module
        self.node = node
        self.members = {}   # name -> FuncInfo
        self.consts = {}    # name -> ast expr (class-level assignments)
        self.is_enum = False


class ModuleInfo:
    def __init__(self, name, path, tree, native):
        self.name = name
        self.path = path
        self.tree = tree
        self.native = native
        self.funcs = {}
        self.classes = {}


ENUM_BASES = {'Enum', 'IntEnum'}


class Program:
    """The loaded source: AST function tables + the natively imported modules (for constants)."""

    def __init__(self, src_dir, package='ansi_string', modules=('ansi_param', 'ansi_format', 'ansi_parsing', 'ansi_string'),
                 extra_files=()):
        self.src_dir = os.path.abspath(src_dir)
        self.package = package
        self.modules = {}
        self.classes = {}
        self.funcs = {}
        self.summaries = {}      # qualname -> engine-level callable(interp, args, kwargs) replacing the body
        self.hooks = {}          # qualname -> callable invoked on entry (instrumentation for harnesses)
        self.class_overrides = {}  # (cls, attr) -> engine value (e.g. WITH_ASSERTIONS)
        if self.src_dir not in sys.path:
            sys.path.insert(0, self.src_dir)
        for m in list(sys.modules):
            if m == package or m.startswith(package + '.'):
                del sys.modules[m]
        self.native_pkg = importlib.import_module(package)
        for m in modules:
            path = os.path.join(self.src_dir, package, m + '.py')
            native = importlib.import_module(package + '.' + m)
            self._load(m, path, native)
        for path in extra_files:
            d = os.path.dirname(os.path.abspath(path))
            if d not in sys.path:
                sys.path.insert(0, d)
            name = os.path.splitext(os.path.basename(path))[0]
            spec = importlib.util.spec_from_file_location('pyvc_extra_' + name, path)
            native = importlib.util.module_from_spec(spec)
            spec.loader.exec_module(native)
            self._load(name, path, native)
        # loops of every function in source order: (qualname, lineno, col) -> ordinal
        self.loop_ordinal = {}
        for q, fi in self.funcs.items():
            loops = [n for n in ast.walk(fi.node) if isinstance(n, (ast.For, ast.While))]
            loops.sort(key=lambda n: (n.lineno, n.col_offset))
            for k, n in enumerate(loops):
                self.loop_ordinal[(q, n.lineno, n.col_offset)] = k
        self.enum_native = {}
        for cname, ci in self.classes.items():
            ncls = getattr(ci.module.native, cname, None)
            if isinstance(ncls, type) and issubclass(ncls, enum.Enum):
                ci.is_enum = True
                self.enum_native[cname] = ncls

    def _load(self, name, path, native):
        with open(path) as f:
            text = f.read()
        tree = ast.parse(text, filename=path)
        mi = ModuleInfo(name, path, tree, native)
        self.modules[name] = mi
        for node in tree.body:
            if isinstance(node, ast.FunctionDef):
                fi = FuncInfo(node, mi, None, node.name, 'function', ast.get_source_segment(text, node))
                mi.funcs[node.name] = fi
                self.funcs[node.name] = fi
            elif isinstance(node, ast.ClassDef):
                bases = [b.id if isinstance(b, ast.Name) else getattr(b, 'attr', '?') for b in node.bases]
                ci = ClassInfo(node.name, bases, mi, node)
                for item in node.body:
                    if isinstance(item, ast.FunctionDef):
                        kind = 'method'
                        for d in item.decorator_list:
                            dn = d.id if isinstance(d, ast.Name) else getattr(d, 'attr', '')
                            if dn == 'staticmethod':
                                kind = 'static'
                            elif dn == 'property':
                                kind = 'property'
                        fi = FuncInfo(item, mi, node.name, node.name + '.' + item.name, kind,
                                      ast.get_source_segment(text, item))
                        ci.members[item.name] = fi
                        self.funcs[fi.qualname] = fi
                    elif isinstance(item, ast.Assign) and len(item.targets) == 1 and isinstance(item.targets[0], ast.Name):
                        ci.consts[item.targets[0].id] = item.value
                mi.classes[node.name] = ci
                self.classes[node.name] = ci

    # --- class helpers
    def mro(self, cname):
        out = []
        todo = [cname]
        while todo:
            c = todo.pop(0)
            if c in out:
                continue
            out.append(c)
            ci = self.classes.get(c)
            if ci:
                todo.extend(ci.bases)
        return out

    def find_member(self, cname, name):
        for c in self.mro(cname):
            ci = self.classes.get(c)
            if ci and name in ci.members:
                return ci.members[name]
        return None

    def is_subclass(self, cname, base):
        return base in self.mro(cname)

    def enum_members(self, cname):
        return list(self.enum_native[cname])

    def enum_is_int(self, cname):
        return issubclass(self.enum_native[cname], int)


# =============================================================================================

class Interp:
    def __init__(self, program):
        self.p = program
        from . import builtins_model
        self.bm = builtins_model
        builtins_model.INTERP = self
        self.call_depth = 0

    # ---------------------------------------------------------------- native <-> engine values
    def lift(self, v):
        """native python value -> engine value"""
        if v is None or isinstance(v, (bool, str)):
            return v
        if isinstance(v, enum.Enum):
            return self.lift_enum(v)
        if isinstance(v, int):
            return v
        if isinstance(v, tuple):
            return tuple(self.lift(x) for x in v)
        if isinstance(v, list):
            return PList([self.lift(x) for x in v])
        if isinstance(v, dict):
            return PDict([(self.lift(k), self.lift(x)) for k, x in v.items()])
        if isinstance(v, type):
            if v.__name__ in self.p.classes:
                return ClassRef(v.__name__)
            if v.__name__ in ('int', 'str', 'list', 'tuple', 'dict', 'bool', 'slice', 'object', 'type'):
                return BuiltinRef(v.__name__)
            if issubclass(v, BaseException):
                return BuiltinRef(v.__name__)
            raise Unsupported('lift type %r' % (v,))
        if isinstance(v, types.ModuleType):
            return ModuleRef(v.__name__)
        if isinstance(v, (types.FunctionType, types.BuiltinFunctionType)):
            if v.__name__ in self.p.funcs:
                return FuncRef(self.p.funcs[v.__name__])
            raise Unsupported('lift function %r' % (v,))
        cname = type(v).__name__
        if cname == 'AnsiSetting':
            c = ctx()
            key = ('native', id(v))
            if key not in c.cache:
                c.cache[key] = PObj('AnsiSetting', {'_str': v._str})
            return c.cache[key]
        if cname == 'RegexFlag':
            return int(v)
        raise Unsupported('lift %r' % (type(v),))

    def lift_enum(self, m):
        cname = type(m).__name__
        if cname not in self.p.enum_native:
            raise Unsupported('enum %s' % cname)
        if self.p.enum_is_int(cname):
            return EnumVal(cname, int(m.value))
        return EnumVal(cname, self.p.enum_members(cname).index(m))

    def enum_native_member(self, ev):
        if is_z3(ev.index):
            return None
        ncls = self.p.enum_native[ev.ecls]
        if self.p.enum_is_int(ev.ecls):
            return ncls(ev.index)
        return self.p.enum_members(ev.ecls)[ev.index]

    # ---------------------------------------------------------------- calls
    def call(self, fv, args, kwargs=None):
        kwargs = kwargs or {}
        c = ctx()
        c.tick()
        if isinstance(fv, FuncRef):
            return self.invoke(fv.func, list(args), kwargs)
        if isinstance(fv, BoundMethod):
            return self.invoke(fv.func, [fv.recv] + list(args), kwargs)
        if isinstance(fv, BuiltinRef):
            return self.bm.call_builtin(self, fv.name, list(args), kwargs)
        if isinstance(fv, BuiltinMethod):
            return self.bm.call_method(self, fv.recv, fv.name, list(args), kwargs)
        if isinstance(fv, ClassRef):
            return self.instantiate(fv.name, list(args), kwargs)
        if isinstance(fv, NativeFn):
            return fv.fn(self, *args, **kwargs)
        if isinstance(fv, PObj):
            m = self.p.find_member(fv.cls, '__call__')
            if m:
                return self.invoke(m, [fv] + list(args), kwargs)
        if fv is None or is_str(fv) or is_int(fv) or is_bool(fv) or isinstance(fv, (PList, PDict, tuple)):
            raise PyExc('TypeError', 'object is not callable', True)
        raise Unsupported('call of %r' % (fv,))

    def call_name(self, qualname, *args, **kwargs):
        return self.invoke(self.p.funcs[qualname], list(args), kwargs)

    def instantiate(self, cname, args, kwargs):
        ci = self.p.classes[cname]
        if ci.is_enum:
            if len(args) != 1:
                raise Unsupported('enum call arity')
            return self.bm.enum_by_value(self, cname, args[0])
        new = self.p.find_member(cname, '__new__')
        if new is not None:
            return self.invoke(new, [ClassRef(cname)] + args, kwargs)
        obj = PObj(cname)
        init = self.p.find_member(cname, '__init__')
        if init is not None:
            self.invoke(init, [obj] + args, kwargs)
        elif args or kwargs:
            raise PyExc('TypeError', '%s() takes no arguments' % cname, True)
        return obj

    def default_value(self, func, node):
        """Default argument values are evaluated once (per path) and shared, as in Python."""
        c = ctx()
        key = ('default', func.qualname, node.lineno, node.col_offset)
        if key not in c.cache:
            c.cache[key] = self.eval(node, Frame(self, func, {}))
        return c.cache[key]

    def invoke(self, func, args, kwargs):
        p = self.p
        hook = p.hooks.get(func.qualname)
        if hook is not None:
            hook(self, func, args, kwargs)
        summ = p.summaries.get(func.qualname)
        if summ is None and '*' in p.summaries and func.cls == 'AnsiString':
            summ = p.summaries['*']
        if summ is not None:
            r = summ(self, func, args, kwargs)
            if r is not NotImplemented:
                return r
        a = func.node.args
        if a.posonlyargs:
            raise Unsupported('positional-only parameters')
        env = {}
        params = [x.arg for x in a.args]
        npos = len(params)
        if len(args) > npos and a.vararg is None:
            raise PyExc('TypeError', '%s() takes %d positional arguments but %d were given'
                        % (func.name, npos, len(args)), True)
        for name, val in zip(params, args):
            env[name] = val
        if a.vararg is not None:
            env[a.vararg.arg] = tuple(args[npos:])
        kw = dict(kwargs)
        for name in params:
            if name in kw:
                if name in env:
                    raise PyExc('TypeError', 'multiple values for argument %s' % name, True)
                env[name] = kw.pop(name)
        ndef = len(a.defaults)
        for i, name in enumerate(params):
            if name not in env:
                j = i - (npos - ndef)
                if j < 0:
                    raise PyExc('TypeError', '%s() missing required argument %s' % (func.name, name), True)
                env[name] = self.default_value(func, a.defaults[j])
        for i, x in enumerate(a.kwonlyargs):
            if x.arg in kw:
                env[x.arg] = kw.pop(x.arg)
            else:
                d = a.kw_defaults[i]
                if d is None:
                    raise PyExc('TypeError', 'missing keyword-only argument %s' % x.arg, True)
                env[x.arg] = self.default_value(func, d)
        if kw:
            if a.kwarg is not None:
                env[a.kwarg.arg] = PDict(list(kw.items()))
            else:
                raise PyExc('TypeError', '%s() got an unexpected keyword argument %s'
                            % (func.name, sorted(kw)[0]), True)
        elif a.kwarg is not None:
            env[a.kwarg.arg] = PDict()
        fr = Frame(self, func, env)
        self.call_depth += 1
        if self.call_depth > 60:
            self.call_depth -= 1
            raise Unsupported('call depth')
        try:
            self.exec_block(func.node.body, fr)
        except ReturnSig as r:
            return r.value
        finally:
            self.call_depth -= 1
        return None

    # ---------------------------------------------------------------- statements
    def exec_block(self, stmts, fr):
        for s in stmts:
            self.exec(s, fr)

    def exec(self, node, fr):
        ctx().tick()
        m = getattr(self, 'x_' + type(node).__name__, None)
        if m is None:
            raise Unsupported('statement %s at %s:%d' % (type(node).__name__, fr.func.qualname, node.lineno))
        return m(node, fr)

    def x_Expr(self, node, fr):
        if isinstance(node.value, ast.Constant):
            return  # docstring
        self.eval(node.value, fr)

    def x_Pass(self, node, fr):
        pass

    def x_Return(self, node, fr):
        raise ReturnSig(self.eval(node.value, fr) if node.value is not None else None)

    def x_Break(self, node, fr):
        raise BreakSig()

    def x_Continue(self, node, fr):
        raise ContinueSig()

    def x_Assign(self, node, fr):
        v = self.eval(node.value, fr)
        for t in node.targets:
            self.assign(t, v, fr)

    def x_AnnAssign(self, node, fr):
        if node.value is not None:
            self.assign(node.target, self.eval(node.value, fr), fr)

    def x_AugAssign(self, node, fr):
        t = node.target
        # evaluate the target's container/key once
        if isinstance(t, ast.Name):
            cur = fr.lookup(t.id)
            new = self.aug(node.op, cur, self.eval(node.value, fr))
            fr.env[t.id] = new
        elif isinstance(t, ast.Attribute):
            obj = self.eval(t.value, fr)
            cur = self.getattr(obj, t.attr)
            new = self.aug(node.op, cur, self.eval(node.value, fr))
            self.setattr(obj, t.attr, new)
        elif isinstance(t, ast.Subscript):
            obj = self.eval(t.value, fr)
            key = self.eval_slice(t.slice, fr)
            cur = self.getitem(obj, key)
            new = self.aug(node.op, cur, self.eval(node.value, fr))
            self.setitem(obj, key, new)
        else:
            raise Unsupported('augassign target')

    def aug(self, op, cur, val):
        if isinstance(op, ast.Add):
            if isinstance(cur, PList):
                self.bm.list_extend(self, cur, val)
                return cur
            if isinstance(cur, PObj):
                m = self.p.find_member(cur.cls, '__iadd__')
                if m is not None:
                    return self.invoke(m, [cur, val], {})
        return self.binop(op, cur, val)

    def x_Delete(self, node, fr):
        for t in node.targets:
            if isinstance(t, ast.Name):
                if t.id not in fr.env:
                    raise PyExc('NameError', t.id, True)
                del fr.env[t.id]
            elif isinstance(t, ast.Subscript):
                obj = self.eval(t.value, fr)
                key = self.eval_slice(t.slice, fr)
                self.delitem(obj, key)
            else:
                raise Unsupported('del target')

    def x_If(self, node, fr):
        if self.truth(self.eval(node.test, fr)):
            self.exec_block(node.body, fr)
        else:
            self.exec_block(node.orelse, fr)

    def _run_cut(self, cut, node, fr):
        try:
            return cut(self, node, fr)
        except (KeyError, AttributeError, TypeError, IndexError) as e:
            # the loop no longer has the shape the invariant was written for
            raise Unsupported('loop invariant not applicable to this loop any more: %s: %s' % (type(e).__name__, e))

    def x_While(self, node, fr):
        cut = fr.loop_cut(node)
        if cut is not None:
            r = self._run_cut(cut, node, fr)
            if r is not NotImplemented:
                return r
        while self.truth(self.eval(node.test, fr)):
            try:
                self.exec_block(node.body, fr)
            except BreakSig:
                return
            except ContinueSig:
                continue
        self.exec_block(node.orelse, fr)

    def x_For(self, node, fr):
        cut = fr.loop_cut(node)
        if cut is not None:
            r = self._run_cut(cut, node, fr)
            if r is not NotImplemented:
                return r
        it = self.eval(node.iter, fr)
        for item in self.iterate(it):
            self.assign(node.target, item, fr)
            try:
                self.exec_block(node.body, fr)
            except BreakSig:
                return
            except ContinueSig:
                continue
        self.exec_block(node.orelse, fr)

    def x_Raise(self, node, fr):
        if node.exc is None:
            if fr.cur_exc is not None:
                raise fr.cur_exc
            raise Unsupported('bare raise')
        e = node.exc
        if isinstance(e, ast.Call) and isinstance(e.func, ast.Name) and e.func.id in BUILTIN_EXC:
            msg = ''
            if e.args and isinstance(e.args[0], ast.Constant):
                msg = str(e.args[0].value)
            raise PyExc(e.func.id, msg)
        if isinstance(e, ast.Name) and e.id in BUILTIN_EXC:
            raise PyExc(e.id, '')
        raise Unsupported('raise of non-builtin exception')

    def x_Try(self, node, fr):
        if node.finalbody:
            raise Unsupported('try/finally')
        try:
            self.exec_block(node.body, fr)
        except PyExc as e:
            for h in node.handlers:
                names = []
                if h.type is None:
                    names = ['BaseException']
                elif isinstance(h.type, ast.Name):
                    names = [h.type.id]
                elif isinstance(h.type, ast.Tuple):
                    names = [x.id for x in h.type.elts]
                if any(sym.exc_isinstance(e.tname, n) for n in names):
                    saved = fr.cur_exc
                    fr.cur_exc = e
                    try:
                        self.exec_block(h.body, fr)
                    finally:
                        fr.cur_exc = saved
                    return
            raise
        else:
            self.exec_block(node.orelse, fr)

    def x_ImportFrom(self, node, fr):
        """`from .mod import name` inside a function: bind the names as the module's own lookup would"""
        modname = (node.module or '').split('.')[-1]
        mi = self.p.modules.get(modname)
        for al in node.names:
            nm = al.name
            target = al.asname or nm
            if mi is not None and nm in mi.funcs:
                fr.env[target] = FuncRef(mi.funcs[nm])
            elif nm in self.p.classes:
                fr.env[target] = ClassRef(nm)
            elif nm in self.p.funcs and self.p.funcs[nm].cls is None:
                fr.env[target] = FuncRef(self.p.funcs[nm])
            elif mi is not None and hasattr(mi.native, nm):
                fr.env[target] = self.lift(getattr(mi.native, nm))
            else:
                raise Unsupported('import of %s from %s' % (nm, node.module))

    def x_Import(self, node, fr):
        for al in node.names:
            if al.name in ('re', 'math'):
                fr.env[al.asname or al.name] = ModuleRef(al.name)
            else:
                raise Unsupported('import %s' % al.name)

    def x_Assert(self, node, fr):
        if not self.truth(self.eval(node.test, fr)):
            raise PyExc('AssertionError', '')

    # ---------------------------------------------------------------- assignment helpers
    def assign(self, target, v, fr):
        if isinstance(target, ast.Name):
            fr.env[target.id] = v
        elif isinstance(target, ast.Attribute):
            self.setattr(self.eval(target.value, fr), target.attr, v)
        elif isinstance(target, ast.Subscript):
            obj = self.eval(target.value, fr)
            self.setitem(obj, self.eval_slice(target.slice, fr), v)
        elif isinstance(target, (ast.Tuple, ast.List)):
            items = list(self.iterate(v))
            if len(items) != len(target.elts):
                raise PyExc('ValueError', 'unpack length mismatch', True)
            for t, x in zip(target.elts, items):
                self.assign(t, x, fr)
        else:
            raise Unsupported('assign target %s' % type(target).__name__)

    def setattr(self, obj, name, v):
        if isinstance(obj, PObj):
            if obj.frozen:
                raise Unsupported('write to frozen object')
            obj.attrs[name] = v
            return
        raise Unsupported('setattr on %r' % (obj,))

    def setitem(self, obj, key, v):
        if isinstance(obj, PList):
            return self.bm.list_setitem(self, obj, key, v)
        if isinstance(obj, PDict):
            return self.bm.dict_setitem(self, obj, key, v)
        if isinstance(obj, PObj):
            m = self.p.find_member(obj.cls, '__setitem__')
            if m:
                return self.invoke(m, [obj, key, v], {})
        raise Unsupported('setitem on %r' % (type(obj),))

    def delitem(self, obj, key):
        if isinstance(obj, PList):
            return self.bm.list_delitem(self, obj, key)
        if isinstance(obj, PDict):
            return self.bm.dict_delitem(self, obj, key)
        raise Unsupported('delitem on %r' % (type(obj),))

    def getitem(self, obj, key):
        if isinstance(obj, PList):
            return self.bm.seq_getitem(self, obj.items, key, True)
        if isinstance(obj, tuple):
            return self.bm.seq_getitem(self, obj, key, False)
        if is_str(obj):
            if isinstance(key, PSlice):
                if not self.bm.step_is_one(key.step):
                    if isinstance(obj, str) and not is_z3(key.start) and not is_z3(key.stop) and not is_z3(key.step):
                        return obj[key.start:key.stop:key.step]
                    raise Unsupported('str slice with step')
                return sym.s_slice(obj, key.start, key.stop)
            if isinstance(key, EnumVal):
                key = self.bm.enum_int(self, key)
            if not is_int(key):
                raise PyExc('TypeError', 'string indices must be integers', True)
            return sym.s_index(obj, key)
        if isinstance(obj, PDict):
            return self.bm.dict_getitem(self, obj, key)
        if isinstance(obj, PObj):
            m = self.p.find_member(obj.cls, '__getitem__')
            if m:
                return self.invoke(m, [obj, key], {})
            if obj.cls == 'AnsiStr':
                return self.getitem(obj.attrs['__payload__'], key)
        if isinstance(obj, ClassRef) and self.p.classes[obj.name].is_enum:
            return self.bm.enum_by_name(self, obj.name, key)
        if isinstance(obj, self.bm.SymSeq):
            return self.bm.symseq_getitem(self, obj, key)
        raise Unsupported('getitem on %r' % (type(obj),))

    # ---------------------------------------------------------------- attributes
    def getattr(self, obj, name):
        p = self.p
        if isinstance(obj, PObj):
            if name in obj.attrs:
                return obj.attrs[name]
            if name == '__class__':
                return ClassRef(obj.cls)
            m = p.find_member(obj.cls, name)
            if m is not None:
                if m.kind == 'property':
                    return self.invoke(m, [obj], {})
                if m.kind == 'static':
                    return FuncRef(m)
                return BoundMethod(obj, m)
            for cn in p.mro(obj.cls):
                if (cn, name) in p.class_overrides:
                    return p.class_overrides[(cn, name)]
                ci = p.classes.get(cn)
                if ci and name in ci.consts:
                    return self.lift(getattr(getattr(ci.module.native, cn), name))
            if obj.cls == 'AnsiStr' or p.is_subclass(obj.cls, 'str'):
                return BuiltinMethod(obj, name)
            if obj.cls.startswith('__'):
                return BuiltinMethod(obj, name)
            raise PyExc('AttributeError', '%s object has no attribute %s' % (obj.cls, name), True)
        if isinstance(obj, EnumVal):
            return self.bm.enum_getattr(self, obj, name)
        if isinstance(obj, ClassRef):
            ci = p.classes[obj.name]
            if (obj.name, name) in p.class_overrides:
                return p.class_overrides[(obj.name, name)]
            m = p.find_member(obj.name, name)
            if m is not None:
                return FuncRef(m)
            if ci.is_enum:
                ncls = p.enum_native[obj.name]
                if name == '__members__':
                    return PDict([(k, self.lift_enum(v)) for k, v in ncls.__members__.items()])
                if name in ncls.__members__:
                    return self.lift_enum(ncls[name])
            if name in ci.consts:
                return self.lift(getattr(getattr(ci.module.native, obj.name), name))
            if name == '__name__':
                return obj.name
            raise PyExc('AttributeError', 'class %s has no attribute %s' % (obj.name, name), True)
        if isinstance(obj, ModuleRef):
            return self.bm.module_attr(self, obj.name, name)
        if isinstance(obj, PSlice):
            if name in ('start', 'stop', 'step'):
                return getattr(obj, name)
        if isinstance(obj, SuperRef):
            return self.bm.super_attr(self, obj, name)
        if isinstance(obj, BuiltinRef) and obj.name == 'str':
            return BuiltinRef('str.' + name)
        if isinstance(obj, BuiltinRef) and obj.name == 'dict' and name == 'fromkeys':
            return BuiltinRef('dict.fromkeys')
        if is_str(obj) or isinstance(obj, (PList, PDict, tuple, PIter)) or is_int(obj) or is_bool(obj) \
                or isinstance(obj, (self.bm.SymSeq, self.bm.UStr)) or type(obj).__name__ == 'MatchObj':
            return BuiltinMethod(obj, name)
        raise Unsupported('getattr %r . %s' % (type(obj).__name__, name))

    def hasattr(self, obj, name):
        if isinstance(obj, PObj):
            if name in obj.attrs:
                return True
            if self.p.find_member(obj.cls, name) is not None:
                return True
            for cn in self.p.mro(obj.cls):
                ci = self.p.classes.get(cn)
                if ci and name in ci.consts:
                    return True
            return False
        if isinstance(obj, EnumVal):
            if self.p.find_member(obj.ecls, name) is not None:
                return True
            return name in ('name', 'value')
        if isinstance(obj, ClassRef):
            return self.p.find_member(obj.name, name) is not None or name in self.p.classes[obj.name].consts
        if is_str(obj):
            return hasattr('', name)
        if is_int(obj) or is_bool(obj):
            return hasattr(0, name)
        if isinstance(obj, PList):
            return hasattr([], name)
        if isinstance(obj, tuple):
            return hasattr((), name)
        if isinstance(obj, PDict):
            return hasattr({}, name)
        if obj is None:
            return hasattr(None, name)
        if isinstance(obj, self.bm.UStr):
            return hasattr('', name)
        if type(obj).__name__ in ('AbsAny', 'AbsVal'):
            return False
        if isinstance(obj, (float, bytes)):
            return hasattr(obj, name)
        raise Unsupported('hasattr on %r' % (type(obj),))

    # ---------------------------------------------------------------- truth / iteration
    def truth(self, v):
        c = ctx()
        if isinstance(v, bool) or is_z3(v) and isinstance(v, z3.BoolRef) or isinstance(v, Approx):
            return c.truth(v)
        if v is None:
            return False
        if is_int(v):
            return c.truth(sym.i_cmp('!=', v, 0))
        if is_str(v):
            return c.truth(sym.s_truth(v))
        if isinstance(v, PList):
            return len(v.items) != 0
        if isinstance(v, tuple):
            return len(v) != 0
        if isinstance(v, PDict):
            return len(v.keys) != 0
        if isinstance(v, self.bm.SymSeq):
            return c.truth(sym.i_cmp('!=', v.length, 0))
        if isinstance(v, PObj):
            m = self.p.find_member(v.cls, '__bool__')
            if m is not None:
                return self.truth(self.invoke(m, [v], {}))
            m = self.p.find_member(v.cls, '__len__')
            if m is not None:
                return self.truth(self.invoke(m, [v], {}))
            if v.cls == 'AnsiStr':
                return self.truth(v.attrs['__payload__'])
            return True
        if isinstance(v, EnumVal):
            if self.p.enum_is_int(v.ecls):
                return c.truth(sym.i_cmp('!=', v.index, 0))
            return True
        if isinstance(v, (ClassRef, FuncRef, BoundMethod, BuiltinRef, BuiltinMethod, ModuleRef, PSlice, TypeVal, NativeFn)):
            return True
        if type(v).__name__ == 'MatchObj':
            return True
        if type(v).__name__ == 'AbsAny':
            # the value of an uninterpreted method: its truth is an uninterpreted predicate of the same term (both explored)
            from . import abstract as _ab
            f = z3.Function('any_truthy', _ab.ANY, z3.BoolSort())
            return c.truth(f(v.term))
        raise Unsupported('truth of %r' % (type(v),))

    def iterate(self, v):
        """python-level generator over the items of an engine value (live semantics for lists)."""
        c = ctx()
        if isinstance(v, PList):
            i = 0
            while i < len(v.items):
                c.tick()
                yield v.items[i]
                i += 1
            return
        if isinstance(v, tuple):
            for x in v:
                yield x
            return
        if isinstance(v, PDict):
            for k in list(v.keys):
                yield k
            return
        if is_str(v):
            cps = sym.s_chars(v)
            if cps is None:
                raise Unsupported('iteration over a string of symbolic length')
            for cp in cps:
                yield sym.mk_rope([('chr', cp)])
            return
        if isinstance(v, PIter):
            while v.pos < len(v.seq):
                x = v.seq[v.pos]
                v.pos += 1
                yield x
            return
        if isinstance(v, self.bm.RangeVal):
            yield from self.bm.range_iter(self, v)
            return
        if isinstance(v, self.bm._LazyIter):
            yield from v.gen
            return
        if isinstance(v, ClassRef) and self.p.classes[v.name].is_enum:
            for m in self.p.enum_members(v.name):
                yield self.lift_enum(m)
            return
        if isinstance(v, PObj):
            if v.cls == 'AnsiStr' and self.p.find_member(v.cls, '__iter__') is None:
                yield from self.iterate(v.attrs['__payload__'])
                return
            it = v
            m = self.p.find_member(v.cls, '__iter__')
            if m is not None:
                it = self.invoke(m, [v], {})
            if isinstance(it, PObj):
                nm = self.p.find_member(it.cls, '__next__')
                if nm is None:
                    raise PyExc('TypeError', 'iter() returned non-iterator', True)
                while True:
                    c.tick()
                    try:
                        x = self.invoke(nm, [it], {})
                    except PyExc as e:
                        if e.tname == 'StopIteration':
                            return
                        raise
                    yield x
            else:
                yield from self.iterate(it)
            return
        if isinstance(v, self.bm.SymSeq):
            raise Unsupported('iteration over a symbolic-length sequence without a loop contract')
        raise PyExc('TypeError', '%r object is not iterable' % (type(v).__name__,), True)

    # ---------------------------------------------------------------- expressions
    def eval(self, node, fr):
        m = getattr(self, 'e_' + type(node).__name__, None)
        if m is None:
            raise Unsupported('expression %s at %s:%d' % (type(node).__name__, fr.func.qualname, node.lineno))
        return m(node, fr)

    def e_Constant(self, node, fr):
        v = node.value
        if v is None or isinstance(v, (bool, int, str)):
            return v
        if v is Ellipsis:
            raise Unsupported('Ellipsis')
        raise Unsupported('constant %r' % (v,))

    def e_Name(self, node, fr):
        return fr.lookup(node.id)

    def e_Attribute(self, node, fr):
        return self.getattr(self.eval(node.value, fr), node.attr)

    def eval_slice(self, node, fr):
        if isinstance(node, ast.Slice):
            return PSlice(self.eval(node.lower, fr) if node.lower is not None else None,
                          self.eval(node.upper, fr) if node.upper is not None else None,
                          self.eval(node.step, fr) if node.step is not None else None)
        return self.eval(node, fr)

    def e_Subscript(self, node, fr):
        obj = self.eval(node.value, fr)
        return self.getitem(obj, self.eval_slice(node.slice, fr))

    def e_Slice(self, node, fr):
        return self.eval_slice(node, fr)

    def e_Tuple(self, node, fr):
        out = []
        for e in node.elts:
            if isinstance(e, ast.Starred):
                out.extend(self.iterate(self.eval(e.value, fr)))
            else:
                out.append(self.eval(e, fr))
        return tuple(out)

    def e_List(self, node, fr):
        out = []
        for e in node.elts:
            if isinstance(e, ast.Starred):
                out.extend(self.iterate(self.eval(e.value, fr)))
            else:
                out.append(self.eval(e, fr))
        return PList(out)

    def e_Dict(self, node, fr):
        d = PDict()
        for k, v in zip(node.keys, node.values):
            if k is None:
                raise Unsupported('dict unpacking')
            self.bm.dict_setitem(self, d, self.eval(k, fr), self.eval(v, fr))
        return d

    def e_Call(self, node, fr):
        # super() needs the frame
        if isinstance(node.func, ast.Name) and node.func.id == 'super' and not node.args:
            return SuperRef(fr.func.cls, fr.env.get(fr.func.node.args.args[0].arg) if fr.func.node.args.args else None)
        fv = self.eval(node.func, fr)
        args = []
        for a in node.args:
            if isinstance(a, ast.Starred):
                args.extend(self.iterate(self.eval(a.value, fr)))
            else:
                args.append(self.eval(a, fr))
        kwargs = {}
        for k in node.keywords:
            if k.arg is None:
                d = self.eval(k.value, fr)
                if not isinstance(d, PDict):
                    raise Unsupported('** of non-dict')
                for kk, vv in zip(d.keys, d.vals):
                    kwargs[kk] = vv
            else:
                kwargs[k.arg] = self.eval(k.value, fr)
        return self.call(fv, args, kwargs)

    def e_IfExp(self, node, fr):
        if self.truth(self.eval(node.test, fr)):
            return self.eval(node.body, fr)
        return self.eval(node.orelse, fr)

    def e_BoolOp(self, node, fr):
        is_and = isinstance(node.op, ast.And)
        v = None
        for i, e in enumerate(node.values):
            v = self.eval(e, fr)
            if i == len(node.values) - 1:
                return v
            t = self.truth(v)
            if is_and and not t:
                return v if not (is_z3(v) or isinstance(v, Approx)) else False
            if not is_and and t:
                return v if not (is_z3(v) or isinstance(v, Approx)) else True
        return v

    def e_UnaryOp(self, node, fr):
        v = self.eval(node.operand, fr)
        if isinstance(node.op, ast.Not):
            if is_bool(v):
                return sym.b_not(v)
            return not self.truth(v)
        if isinstance(node.op, ast.USub):
            if isinstance(v, EnumVal):
                v = self.bm.enum_int(self, v)
            if is_int(v):
                return sym.i_neg(v)
            if isinstance(v, bool):
                return -int(v)
        if isinstance(node.op, ast.UAdd) and is_int(v):
            return v
        raise Unsupported('unary op')

    def e_BinOp(self, node, fr):
        return self.binop(node.op, self.eval(node.left, fr), self.eval(node.right, fr))

    def binop(self, op, a, b):
        bm = self.bm
        if isinstance(a, EnumVal) and self.p.enum_is_int(a.ecls):
            a = bm.enum_int(self, a)
        if isinstance(b, EnumVal) and self.p.enum_is_int(b.ecls):
            b = bm.enum_int(self, b)
        if isinstance(a, bool) and is_int(b):
            a = int(a)
        if isinstance(b, bool) and is_int(a):
            b = int(b)
        if is_int(a) and is_int(b):
            if isinstance(op, ast.Add):
                return sym.i_add(a, b)
            if isinstance(op, ast.Sub):
                return sym.i_sub(a, b)
            if isinstance(op, ast.Mult):
                return sym.i_mul(a, b)
            if isinstance(op, ast.FloorDiv):
                return sym.i_floordiv(a, b)
            if isinstance(op, ast.Mod):
                return sym.i_mod(a, b)
            if isinstance(op, ast.BitAnd):
                return sym.i_and(a, b)
            if isinstance(op, ast.RShift):
                return sym.i_rshift(a, b)
            if isinstance(op, ast.LShift):
                return sym.i_lshift(a, b)
            if isinstance(op, ast.Div):
                return Frac(a, b)
            if isinstance(op, ast.BitOr) and not is_z3(a) and not is_z3(b):
                return a | b
            raise Unsupported('int op %s' % type(op).__name__)
        if isinstance(op, ast.Add):
            if is_str(a) and is_str(b):
                return sym.s_concat(a, b)
            if isinstance(a, PList) and isinstance(b, PList):
                return PList(a.items + b.items)
            if isinstance(a, tuple) and isinstance(b, tuple):
                return a + b
            if isinstance(a, PObj):
                m = self.p.find_member(a.cls, '__add__')
                if m is not None:
                    return self.invoke(m, [a, b], {})
            if isinstance(b, PObj):
                m = self.p.find_member(b.cls, '__radd__')
                if m is not None:
                    return self.invoke(m, [b, a], {})
                if is_str(a) and b.cls == 'AnsiStr':
                    return sym.s_concat(a, b.attrs['__payload__'])
            if isinstance(a, bm.SymSeq) or isinstance(b, bm.SymSeq):
                return bm.symseq_concat(self, a, b)
            raise PyExc('TypeError', 'unsupported operand type(s) for +', True)
        if isinstance(op, ast.Mult):
            if is_str(a) and is_int(b):
                return sym.s_mul(a, b)
            if is_int(a) and is_str(b):
                return sym.s_mul(b, a)
            if isinstance(a, PList) and isinstance(b, int):
                return PList(a.items * b)
        if isinstance(op, ast.Mod) and is_str(a):
            raise Unsupported('% string formatting')
        raise Unsupported('binop %s on %s,%s' % (type(op).__name__, type(a).__name__, type(b).__name__))

    def e_Compare(self, node, fr):
        left = self.eval(node.left, fr)
        result = True
        n = len(node.ops)
        for i, (op, rn) in enumerate(zip(node.ops, node.comparators)):
            right = self.eval(rn, fr)
            r = self.compare(op, left, right)
            if n == 1:
                return r
            if not self.truth(r):
                return False
            left = right
        return result

    def compare(self, op, a, b):
        bm = self.bm
        if isinstance(op, ast.Eq):
            return bm.v_eq(self, a, b)
        if isinstance(op, ast.NotEq):
            return bm.v_not(self, bm.v_eq(self, a, b))
        if isinstance(op, ast.Is):
            return bm.v_is(self, a, b)
        if isinstance(op, ast.IsNot):
            return bm.v_not(self, bm.v_is(self, a, b))
        if isinstance(op, ast.In):
            return bm.v_in(self, a, b)
        if isinstance(op, ast.NotIn):
            return bm.v_not(self, bm.v_in(self, a, b))
        o = {ast.Lt: '<', ast.LtE: '<=', ast.Gt: '>', ast.GtE: '>='}[type(op)]
        if isinstance(a, EnumVal) and self.p.enum_is_int(a.ecls):
            a = bm.enum_int(self, a)
        if isinstance(b, EnumVal) and self.p.enum_is_int(b.ecls):
            b = bm.enum_int(self, b)
        if isinstance(a, bool):
            a = int(a)
        if isinstance(b, bool):
            b = int(b)
        if is_int(a) and is_int(b):
            return sym.i_cmp(o, a, b)
        if isinstance(a, str) and isinstance(b, str):
            return {'<': a < b, '<=': a <= b, '>': a > b, '>=': a >= b}[o]
        if is_str(a) and is_str(b):
            ca, cb = sym.s_chars(a), sym.s_chars(b)
            if ca is not None and cb is not None and len(ca) == 1 and len(cb) == 1:
                return sym.i_cmp(o, ca[0], cb[0])   # single characters compare by code point
        if a is None or b is None or (is_str(a) != is_str(b)):
            raise PyExc('TypeError', "'%s' not supported between instances" % o, True)
        raise Unsupported('ordering comparison on %s,%s' % (type(a).__name__, type(b).__name__))

    def e_ListComp(self, node, fr):
        out = []
        self._comp(node.generators, 0, fr.child(), lambda f: out.append(self.eval(node.elt, f)))
        return PList(out)

    def e_GeneratorExp(self, node, fr):
        out = []
        self._comp(node.generators, 0, fr.child(), lambda f: out.append(self.eval(node.elt, f)))
        return PIter(out)

    def e_DictComp(self, node, fr):
        d = PDict()
        self._comp(node.generators, 0, fr.child(),
                   lambda f: self.bm.dict_setitem(self, d, self.eval(node.key, f), self.eval(node.value, f)))
        return d

    def _comp(self, gens, i, fr, emit):
        if i == len(gens):
            emit(fr)
            return
        g = gens[i]
        if g.is_async:
            raise Unsupported('async comprehension')
        for item in self.iterate(self.eval(g.iter, fr)):
            self.assign(g.target, item, fr)
            if all(self.truth(self.eval(c, fr)) for c in g.ifs):
                self._comp(gens, i + 1, fr, emit)

    def e_JoinedStr(self, node, fr):
        out = ''
        for v in node.values:
            if isinstance(v, ast.Constant):
                out = sym.s_concat(out, v.value)
            elif isinstance(v, ast.FormattedValue):
                if v.format_spec is not None or v.conversion not in (-1, 115):
                    raise Unsupported('f-string format spec')
                out = sym.s_concat(out, self.bm.to_str(self, self.eval(v.value, fr)))
            else:
                raise Unsupported('f-string part')
        return out

    def e_Lambda(self, node, fr):
        fi = FuncInfo(_lambda_def(node), fr.func.module, fr.func.cls, fr.func.qualname + '.<lambda>', 'function', '')
        closure = fr

        def call(interp, *args, **kwargs):
            env = dict(closure.env)
            params = [a.arg for a in node.args.args]
            for name, val in zip(params, args):
                env[name] = val
            f2 = Frame(interp, fi, env)
            return interp.eval(node.body, f2)
        return NativeFn(call, 'lambda')


def _lambda_def(node):
    fd = ast.FunctionDef(name='<lambda>', args=node.args, body=[ast.Return(value=node.body)], decorator_list=[])
    fd.lineno = node.lineno
    fd.col_offset = node.col_offset
    return fd


class Frame:
    __slots__ = ('interp', 'func', 'env', 'cur_exc', 'parent')

    def __init__(self, interp, func, env, parent=None):
        self.interp = interp
        self.func = func
        self.env = env
        self.cur_exc = None
        self.parent = parent

    def child(self):
        # comprehension scope: reads fall through to the parent, writes stay local
        return Frame(self.interp, self.func, _ChainEnv(self.env), self)

    def loop_cut(self, node):
        cuts = getattr(self.interp, 'loop_cuts', None)
        if not cuts:
            return None
        k = self.interp.p.loop_ordinal.get((self.func.qualname, node.lineno, node.col_offset))
        return cuts.get((self.func.qualname, k))

    def lookup(self, name):
        env = self.env
        if name in env:
            return env[name]
        interp = self.interp
        p = interp.p
        if name == '__class__' and self.func.cls:
            return ClassRef(self.func.cls)
        mod = self.func.module
        if name in mod.classes or (name in p.classes and hasattr(mod.native, name)):
            return ClassRef(name)
        if name in mod.funcs:
            return FuncRef(mod.funcs[name])
        if hasattr(mod.native, name):
            v = getattr(mod.native, name)
            if isinstance(v, types.FunctionType) and v.__name__ in p.funcs:
                return FuncRef(p.funcs[v.__name__])
            if isinstance(v, types.FunctionType) and getattr(v, '_pyvc_native', False):
                return NativeFn(v._pyvc_impl, name)
            return interp.lift(v)
        if name in interp.bm.BUILTIN_NAMES or name in BUILTIN_EXC:
            return BuiltinRef(name)
        raise PyExc('NameError', name, True)


class _ChainEnv(dict):
    def __init__(self, parent):
        dict.__init__(self)
        self._parent = parent

    def __contains__(self, k):
        return dict.__contains__(self, k) or k in self._parent

    def __getitem__(self, k):
        if dict.__contains__(self, k):
            return dict.__getitem__(self, k)
        return self._parent[k]

    def get(self, k, d=None):
        if k in self:
            return self[k]
        return d
