"""Registry of obligation groups (loaded from /verif/contracts/groups_*.py)."""
import glob
import importlib.util
import os

_GROUPS = None


def load():
    global _GROUPS
    if _GROUPS is None:
        _GROUPS = {}
        base = os.path.join(os.path.dirname(os.path.dirname(os.path.abspath(__file__))), 'contracts')
        import sys
        if base not in sys.path:
            sys.path.insert(0, base)
        for path in sorted(glob.glob(os.path.join(base, 'groups_*.py'))):
            name = 'pyvc_groups_' + os.path.splitext(os.path.basename(path))[0]
            spec = importlib.util.spec_from_file_location(name, path)
            mod = importlib.util.module_from_spec(spec)
            spec.loader.exec_module(mod)
            for g in mod.GROUPS:
                if g.gid in _GROUPS:
                    raise RuntimeError('duplicate group id ' + g.gid)
                _GROUPS[g.gid] = g
    return _GROUPS


def get(gid):
    return load()[gid]


def all_groups():
    return list(load().values())
