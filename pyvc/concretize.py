"""Model -> native objects, native replay and engine/CPython cross-check (DESIGN.md 6.2, 6.5)."""
import z3
from . import sym
from .sym import PList, PDict, PObj, PSlice, PIter, EnumVal, Rope, is_z3, Unsupported


class NativeMatch:
    """stand-in for an re match object in native replays"""

    def __init__(self, s, e):
        self._s, self._e = s, e

    def start(self, group=0):
        return self._s

    def end(self, group=0):
        return self._e


class Concretizer:
    def __init__(self, program, model, texts=()):
        self.p = program
        self.m = model
        self.memo = {}
        self.text_cache = {}
        self.texts = list(texts)
        self._tid_rank = None

    # --- scalars
    def ev(self, e):
        if not is_z3(e):
            return e
        r = self.m.eval(sym.Z(e), model_completion=True)
        if z3.is_int_value(r):
            return r.as_long()
        if z3.is_true(r):
            return True
        if z3.is_false(r):
            return False
        raise Unsupported('cannot evaluate %s in model' % e)

    def tid_rank(self, T):
        if self._tid_rank is None:
            vals = sorted({self.ev(U.tid) for U in self.texts})
            self._tid_rank = {v: i for i, v in enumerate(vals)}
        return self._tid_rank.get(self.ev(T.tid), 0)

    def text(self, T):
        """A concrete string for an opaque text: its length and (where the path inspected them) its
        characters come from the model; otherwise distinct positional letters, made different for
        different value ids."""
        if T.name in self.text_cache:
            return self.text_cache[T.name]
        n = self.ev(T.len)
        if n > 5000:
            raise Unsupported('model text too long')
        rank = self.tid_rank(T)
        kind = getattr(T, 'kind', 'base')
        used = getattr(T, 'chars_used', False)
        out = []
        if kind == 'setting' and not used:
            s = str(30 + rank)
            s = s.rjust(n, '0') if n >= len(s) else str(rank % 10) * n
            out = list(s)
        else:
            # mixed case, distinct neighbours: case conversions and misplaced characters stay visible
            alpha = 'aBcDeFgHiJkLmNoPqRsTuVwXyZ'
            for i in range(n):
                if used:
                    cp = self.ev(sym.atom(z3.Select(T.chars, z3.IntVal(i))))
                    if not (0 <= cp < 0x110000) or 0xD800 <= cp < 0xE000:
                        cp = 63
                    out.append(chr(cp))
                else:
                    ch = alpha[(i + 7 * rank) % 26]
                    out.append(ch if rank % 2 == 0 else ch.swapcase())
        s = ''.join(out)
        self.text_cache[T.name] = s
        return s

    def string(self, s):
        if isinstance(s, str):
            return s
        out = []
        for a in s.atoms:
            k = a[0]
            if k == 'lit':
                out.append(a[1])
            elif k == 'chr':
                cp = self.ev(a[1])
                out.append(chr(cp) if 0 <= cp < 0x110000 else '?')
            elif k == 'opq':
                out.append(self.text(a[1])[self.ev(a[2]):self.ev(a[3])])
            elif k == 'rep':
                cp = self.ev(a[1])
                out.append(chr(cp) * max(self.ev(a[2]), 0))
            elif k == 'istr':
                out.append(str(self.ev(a[1])))
        return ''.join(out)

    # --- values
    def val(self, v):
        p = self.p
        if v is None or isinstance(v, (bool, int, str)):
            return v
        if is_z3(v):
            return self.ev(v)
        if isinstance(v, Rope):
            return self.string(v)
        if isinstance(v, tuple):
            return tuple(self.val(x) for x in v)
        if isinstance(v, PSlice):
            return slice(self.val(v.start), self.val(v.stop), self.val(v.step))
        if isinstance(v, EnumVal):
            ncls = p.enum_native[v.ecls]
            idx = self.ev(v.index)
            if p.enum_is_int(v.ecls):
                return ncls(idx)
            return p.enum_members(v.ecls)[idx]
        if isinstance(v, (PList, PDict, PObj, PIter)):
            if id(v) in self.memo:
                return self.memo[id(v)]
            if isinstance(v, PList):
                out = []
                self.memo[id(v)] = out
                out.extend(self.val(x) for x in v.items)
                return out
            if isinstance(v, PDict):
                out = {}
                self.memo[id(v)] = out
                for k, x in zip(v.keys, v.vals):
                    out[self.val(k)] = self.val(x)
                return out
            if isinstance(v, PIter):
                out = iter([self.val(x) for x in v.seq[v.pos:]])
                self.memo[id(v)] = out
                return out
            from . import abstract as _ab
            if v.cls == '__match__':
                obj = NativeMatch(self.val(v.attrs['_start']), self.val(v.attrs['_end']))
                self.memo[id(v)] = obj
                return obj
            if v.cls == 'AnsiString' and isinstance(v.attrs.get('_fmts'), _ab.AbsTbl):
                obj = self.abstract_ansistring(v)
                self.memo[id(v)] = obj
                return obj
            ncls = self.native_class(v.cls)
            if v.cls == 'AnsiStr':
                pay = v.attrs.get('__payload__', '')
                from .builtins_model import UStr as _UStr
                if isinstance(pay, _UStr):
                    # payload known only as "the rendering of the wrapped value": take the real rendering
                    inner = self.val(v.attrs['_s'])
                    pay = inner.to_str()
                    obj = str.__new__(ncls, pay)
                    self.memo[id(v)] = obj
                    object.__setattr__(obj, '_s', inner)
                    return obj
                obj = str.__new__(ncls, self.val(pay))
            else:
                obj = ncls.__new__(ncls)
            self.memo[id(v)] = obj
            for k, x in v.attrs.items():
                if k == '__payload__':
                    continue
                object.__setattr__(obj, k, self.val(x))
            return obj
        from .interp import ClassRef
        if isinstance(v, ClassRef):
            return self.native_class(v.name)
        raise Unsupported('concretize %r' % (type(v),))

    def abstract_ansistring(self, v):
        """A concrete AnsiString whose per-character settings realise the model's interpretation of vt(table, i):
        each distinct abstract settings-list value becomes one distinct setting, applied over its runs with the
        library's own apply_formatting."""
        from . import abstract as _ab
        text = self.val(v.attrs['_s'])
        ncls = self.native_class('AnsiString')
        pcls = self.native_class('_AnsiSettingPoint')
        obj = ncls.__new__(ncls)
        obj._s = text
        obj._fmts = {}
        term = v.attrs['_fmts'].term
        nil = str(self.m.eval(_ab.NIL, model_completion=True))
        objs = self.__dict__.setdefault('_vl_objs', {})
        vals = [str(self.m.eval(_ab.VT(term, z3.IntVal(i)), model_completion=True)) for i in range(len(text))]

        def point(k):
            if k not in obj._fmts:
                obj._fmts[k] = pcls()
            return obj._fmts[k]
        i = 0
        while i < len(vals):
            j = i
            while j < len(vals) and vals[j] == vals[i]:
                j += 1
            if vals[i] != nil:
                if vals[i] not in objs:
                    palette = ['31', '32', '33', '34', '35', '36', '1', '3', '4', '9', '41', '42', '43', '44']
                    objs[vals[i]] = self.native_class('AnsiSetting')(palette[len(objs) % len(palette)])
                point(i).add.append(objs[vals[i]])
                point(j).rem.append(objs[vals[i]])
            i = j
        return obj

    def native_class(self, cname):
        ci = self.p.classes[cname]
        return getattr(ci.module.native, cname)


# ---------------------------------------------------------------------------------------------
# native structural comparison (identity patterns compared through a bijection)

IMMUT = ('AnsiSetting',)


def native_equal(a, b, bij=None, path='', ignore=('_valid', '_parsable')):
    """Compare two native structures (expected vs actual).  Returns None if equal, else a description."""
    if bij is None:
        bij = ({}, {})
    fwd, bwd = bij
    ta, tb = type(a), type(b)
    if ta is not tb:
        return '%s: type %s vs %s' % (path, ta.__name__, tb.__name__)
    if a is None or isinstance(a, (bool, int, str, bytes, slice)):
        if ta is str and type(a).__name__ == 'AnsiStr':
            pass
        elif a != b:
            return '%s: %r vs %r' % (path, a, b)
        else:
            return None
    if isinstance(a, (list, tuple)):
        if id(a) in fwd or id(b) in bwd:
            if fwd.get(id(a)) != id(b) or bwd.get(id(b)) != id(a):
                return '%s: aliasing pattern differs' % path
            return None
        if isinstance(a, list):
            fwd[id(a)] = id(b)
            bwd[id(b)] = id(a)
        if len(a) != len(b):
            return '%s: length %d vs %d (%r vs %r)' % (path, len(a), len(b), _short(a), _short(b))
        for i, (x, y) in enumerate(zip(a, b)):
            r = native_equal(x, y, bij, '%s[%d]' % (path, i), ignore)
            if r:
                return r
        return None
    if isinstance(a, dict):
        if id(a) in fwd or id(b) in bwd:
            if fwd.get(id(a)) != id(b) or bwd.get(id(b)) != id(a):
                return '%s: aliasing pattern differs' % path
            return None
        fwd[id(a)] = id(b)
        bwd[id(b)] = id(a)
        if set(a.keys()) != set(b.keys()):
            return '%s: keys %r vs %r' % (path, sorted(a.keys(), key=repr), sorted(b.keys(), key=repr))
        for k in a:
            r = native_equal(a[k], b[k], bij, '%s[%r]' % (path, k), ignore)
            if r:
                return r
        return None
    import enum
    if isinstance(a, enum.Enum):
        return None if a is b else '%s: %r vs %r' % (path, a, b)
    if hasattr(a, '__dict__') or isinstance(a, str):
        if id(a) in fwd or id(b) in bwd:
            if fwd.get(id(a)) != id(b) or bwd.get(id(b)) != id(a):
                return '%s: identity pattern differs' % path
            return None
        fwd[id(a)] = id(b)
        bwd[id(b)] = id(a)
        if isinstance(a, str) and str.__str__(a) != str.__str__(b):
            return '%s: payload %r vs %r' % (path, str.__str__(a), str.__str__(b))
        da = {k: v for k, v in vars(a).items() if k not in ignore}
        db = {k: v for k, v in vars(b).items() if k not in ignore}
        if set(da) != set(db):
            return '%s: attributes %r vs %r' % (path, sorted(da), sorted(db))
        for k in da:
            r = native_equal(da[k], db[k], bij, '%s.%s' % (path, k), ignore)
            if r:
                return r
        return None
    if a != b:
        return '%s: %r vs %r' % (path, a, b)
    return None


def _short(x):
    try:
        return [str(e) for e in x][:6]
    except Exception:
        return '?'


def describe(v, depth=0):
    """human-readable dump of a native value (for replay files)"""
    import enum
    if v is None or isinstance(v, (bool, int, str, slice)):
        if type(v).__name__ == 'AnsiStr':
            return {'AnsiStr': describe(v._s)}
        return repr(v)
    if isinstance(v, enum.Enum):
        return '%s.%s' % (type(v).__name__, v.name)
    if isinstance(v, type):
        return 'class ' + v.__name__
    if depth > 12:
        return '<... nested deeper than 12 levels (cyclic?)>'
    if isinstance(v, (list, tuple)):
        return [describe(x, depth + 1) for x in v]
    if isinstance(v, dict):
        return {repr(k): describe(x, depth + 1) for k, x in v.items()}
    cn = type(v).__name__
    if cn == 'AnsiSetting':
        return 'AnsiSetting#%x(%r)' % (id(v) % 0xffff, v._str)
    if cn == '_AnsiSettingPoint':
        return {'add': describe(v.add), 'rem': describe(v.rem)}
    if cn == 'AnsiString':
        return {'AnsiString': {'_s': v._s, '_fmts': {repr(k): describe(p) for k, p in sorted(v._fmts.items())}}}
    if hasattr(v, '__dict__'):
        return {cn: {k: describe(x, depth + 1) for k, x in vars(v).items()}}
    return repr(v)
