"""Loop cutting by inductive invariants (U-mode, DESIGN.md 2.3).

A cut replaces the execution of a loop by: (1) the invariant holds on entry [obligation]; (2) from an arbitrary state
satisfying the invariant at iteration i, one execution of the body re-establishes it at i+1 [obligation], or leaves the
loop by break/return; (3) the code after the loop runs from an arbitrary state satisfying the invariant at exit."""
import ast
import z3

from . import sym
from .sym import ctx, Unsupported, Infeasible, i_cmp, i_add, i_sub, b_and, Z, is_z3


class PathEnd(Exception):
    """the current path ends here (its obligations stay recorded)"""


def _havoc(c, fr, names):
    for nm in names:
        cur = fr.env.get(nm)
        if isinstance(cur, bool) or sym.is_symbool(cur):
            fr.env[nm] = c.fresh_bool(nm)
        elif sym.is_int(cur):
            fr.env[nm] = c.fresh_int(nm)
        elif cur is None and nm not in fr.env:
            continue
        else:
            raise Unsupported('loop cut: cannot havoc %s of type %s' % (nm, type(cur).__name__))


class ForTextCut:
    """`for x in text:` / `for x in reversed(text):` over a text of symbolic length.
    inv(interp, fr, i, text) -> bool | z3 Bool : invariant after i completed iterations
    text: dict(T=OpaqueText, lo=, hi=, n=, char=lambda j: 1-char rope at iteration j)"""

    def __init__(self, name, modifies, inv):
        self.name = name
        self.modifies = modifies
        self.inv = inv

    def __call__(self, interp, node, fr):
        from .interp import BreakSig, ContinueSig
        c = ctx()
        it = node.iter
        reverse = False
        if isinstance(it, ast.Call) and isinstance(it.func, ast.Name) and it.func.id == 'reversed' and len(it.args) == 1:
            reverse = True
            it = it.args[0]
        tv = interp.eval(it, fr)
        atoms = sym.atoms_of(tv) if sym.is_str(tv) else None
        if atoms is None or (len(atoms) == 1 and atoms[0][0] != 'opq') or len(atoms) > 1:
            if atoms is not None and sym.s_chars(tv) is not None:
                return NotImplemented  # concrete length: just run the loop
            raise Unsupported('loop cut %s: iterated text is not an opaque text' % self.name)
        if not atoms:
            return NotImplemented
        _, T, lo, hi = atoms[0]
        n = i_sub(hi, lo)

        def char(j):
            p = i_add(lo, i_sub(i_sub(n, 1), j)) if reverse else i_add(lo, j)
            return sym.mk_rope([('opq', T, p, i_add(p, 1))])
        def char_at(p):
            return sym.mk_rope([('opq', T, p, i_add(p, 1))])
        text = {'T': T, 'lo': lo, 'hi': hi, 'n': n, 'char': char, 'char_at': char_at, 'reverse': reverse}
        c.prove('loop-invariant-on-entry:' + self.name, self.inv(interp, fr, 0, text))
        which = c.choice(2)
        _havoc(c, fr, self.modifies)
        if which == 0:
            i = c.fresh_int('iter')
            c.assume(i_cmp('>=', i, 0))
            c.assume(i_cmp('<', i, n))
            c.assume(self.inv(interp, fr, i, text))
            if not c.feasible():
                raise Infeasible()
            interp.assign(node.target, char(i), fr)
            try:
                interp.exec_block(node.body, fr)
            except BreakSig:
                return None  # continue after the loop from the state at the break
            except ContinueSig:
                pass
            c.prove('loop-invariant-preserved:' + self.name, self.inv(interp, fr, i_add(i, 1), text))
            raise PathEnd()
        c.assume(self.inv(interp, fr, n, text))
        if not c.feasible():
            raise Infeasible()
        interp.exec_block(node.orelse, fr)
        return None


def forall_lt(c, hi, body):
    """z3: for all j with 0 <= j < hi: body(j)   (body builds a z3 Bool from a SymInt bound variable)"""
    j = sym.int_const('j!bound%d' % len(sym._CONST_CACHE))
    b = body(j)
    if isinstance(b, bool):
        return True if b else i_cmp('<=', hi, 0)
    jz = Z(j)
    return z3.ForAll([jz], z3.Implies(z3.And(jz >= 0, jz < Z(hi)), b))


def forall_range(c, lo, hi, body):
    """z3: for all p with lo <= p < hi: body(p)"""
    p = sym.int_const('p!bound%d' % len(sym._CONST_CACHE))
    b = body(p)
    if isinstance(b, bool):
        return True if b else i_cmp('<=', hi, lo)
    pz = Z(p)
    return z3.ForAll([pz], z3.Implies(z3.And(pz >= Z(lo), pz < Z(hi)), b))
