"""Value model of the symbolic interpreter (DESIGN.md 2.3-2.5).

Python values inside the engine:
  int            -> python int | z3 ArithRef (Int sort)
  bool           -> python bool | z3 BoolRef
  None           -> None
  str            -> python str | Rope
  tuple          -> python tuple of values
  list/dict/obj  -> PList / PDict / PObj (heap objects with python identity = object identity)
  enum member    -> EnumVal
  slice          -> PSlice
Everything else (ClassRef, FuncRef, BoundMethod, ...) lives in interp.py.
"""
import z3

IntSort = z3.IntSort()
BoolSort = z3.BoolSort()


class Unsupported(Exception):
    """Operation outside the modelled subset: the obligation becomes *undecided*, never a verdict."""


class Infeasible(Exception):
    """The current path condition is unsatisfiable (path is dropped)."""


class PyExc(Exception):
    """A Python exception raised by the interpreted program."""

    def __init__(self, tname, msg='', implicit=False):
        Exception.__init__(self, tname, msg)
        self.tname = tname
        self.msg = msg
        self.implicit = implicit  # raised by a language primitive (index, key, int(), ...) not by `raise`

    def __repr__(self):
        return 'PyExc(%s: %s)' % (self.tname, self.msg)


# exception hierarchy used by `except`
EXC_PARENTS = {
    'ValueError': 'Exception', 'TypeError': 'Exception', 'KeyError': 'LookupError',
    'IndexError': 'LookupError', 'LookupError': 'Exception', 'StopIteration': 'Exception',
    'AttributeError': 'Exception', 'AssertionError': 'Exception', 'RuntimeError': 'Exception',
    'NotImplementedError': 'RuntimeError', 'ZeroDivisionError': 'ArithmeticError',
    'ArithmeticError': 'Exception', 'OverflowError': 'ArithmeticError', 'UnicodeEncodeError': 'ValueError',
    'Exception': 'BaseException', 'BaseException': None,
}


def exc_isinstance(tname, handler):
    t = tname
    while t is not None:
        if t == handler:
            return True
        t = EXC_PARENTS.get(t)
    return False


# ---------------------------------------------------------------------------------------------
# current path context (set by explore.py); sym/builtins/interp call into it for forks
CUR = None


def ctx():
    if CUR is None:
        raise RuntimeError('no active path context')
    return CUR


def set_ctx(c):
    global CUR
    CUR = c


# ---------------------------------------------------------------------------------------------
# scalars
#
# Symbolic integers are kept as *linear terms over atoms* in plain python (SymInt); an atom is any z3
# Int expression (a constant, an array select, an uninterpreted application, an ITE, a product ...).
# Comparisons are canonicalised to `lin <= 0` / `lin == 0` and the z3 atoms are memoised per process,
# so that re-executing a path prefix builds no new z3 terms and the per-path fact cache (keyed by AST
# id) recognises repeated conditions without a solver call.

_ATOM_BY_ID = {}     # z3 ast id -> atom index
_ATOMS = []          # atom index -> z3 expr
_CONST_CACHE = {}    # name -> SymInt
_CMP_CACHE = {}      # canonical key -> z3 BoolRef


def _atom_index(e):
    i = _ATOM_BY_ID.get(e.get_id())
    if i is None:
        i = len(_ATOMS)
        _ATOMS.append(e)
        _ATOM_BY_ID[e.get_id()] = i
    return i


class SymInt:
    """const + sum(coeff * atom): terms is a tuple of (atom index, coeff) sorted by atom index."""
    __slots__ = ('terms', 'const', '_z3')

    def __init__(self, terms, const):
        self.terms = terms
        self.const = const
        self._z3 = None

    def z3(self):
        if self._z3 is None:
            parts = []
            for ai, co in self.terms:
                a = _ATOMS[ai]
                parts.append(a if co == 1 else z3.IntVal(co) * a)
            if self.const != 0 or not parts:
                parts.append(z3.IntVal(self.const))
            e = parts[0]
            for x in parts[1:]:
                e = e + x
            self._z3 = e
        return self._z3

    def key(self):
        return (self.terms, self.const)

    def __repr__(self):
        if not self.terms:
            return str(self.const)
        ps = []
        for ai, co in self.terms:
            a = str(_ATOMS[ai])
            ps.append(a if co == 1 else '%d*%s' % (co, a))
        if self.const:
            ps.append(str(self.const))
        return ' + '.join(ps)

    # convenience operators for harness code
    def __add__(self, o):
        return i_add(self, o)

    __radd__ = __add__

    def __sub__(self, o):
        return i_sub(self, o)

    def __rsub__(self, o):
        return i_sub(o, self)

    def __neg__(self):
        return i_neg(self)

    def __mul__(self, o):
        return i_mul(self, o)

    __rmul__ = __mul__

    def __lt__(self, o):
        return i_cmp('<', self, o)

    def __le__(self, o):
        return i_cmp('<=', self, o)

    def __gt__(self, o):
        return i_cmp('>', self, o)

    def __ge__(self, o):
        return i_cmp('>=', self, o)

    def __eq__(self, o):
        return i_cmp('==', self, o)

    def __ne__(self, o):
        return i_cmp('!=', self, o)

    __hash__ = None


def _lin(v):
    """int | SymInt | z3 ArithRef -> (terms, const)"""
    if isinstance(v, SymInt):
        return v.terms, v.const
    if isinstance(v, int):
        return (), int(v)
    if isinstance(v, z3.ArithRef):
        if z3.is_int_value(v):
            return (), v.as_long()
        return ((_atom_index(v), 1),), 0
    raise Unsupported('not an integer: %r' % (v,))


def _mk(terms, const):
    if not terms:
        return const
    return SymInt(terms, const)


def atom(e):
    """z3 Int expression -> engine int value"""
    if z3.is_int_value(e):
        return e.as_long()
    return SymInt(((_atom_index(e), 1),), 0)


def int_const(name):
    v = _CONST_CACHE.get(name)
    if v is None:
        v = atom(z3.Int(name))
        _CONST_CACHE[name] = v
    return v


def is_z3(v):
    """True for every *symbolic* scalar (SymInt or z3 expression)"""
    return isinstance(v, (SymInt, z3.ExprRef))


def is_symint(v):
    return isinstance(v, (SymInt, z3.ArithRef))


def is_symbool(v):
    return isinstance(v, z3.BoolRef)


def is_int(v):
    return (isinstance(v, int) and not isinstance(v, bool)) or isinstance(v, (SymInt, z3.ArithRef))


def is_bool(v):
    return isinstance(v, bool) or isinstance(v, z3.BoolRef)


def simp(e):
    """Fold to a python literal when possible (cheap: no z3.simplify on integers)."""
    if isinstance(e, SymInt):
        return e if e.terms else e.const
    if isinstance(e, z3.BoolRef):
        return e
    if isinstance(e, z3.ArithRef):
        return atom(e)
    return e


def Z(v):
    """engine scalar -> z3 expression"""
    if isinstance(v, SymInt):
        return v.z3()
    if isinstance(v, z3.ExprRef):
        return v
    if isinstance(v, bool):
        return z3.BoolVal(v)
    if isinstance(v, int):
        return z3.IntVal(v)
    raise Unsupported('Z(%r)' % (v,))


_NEG = {}      # ast id -> negated expression (both directions)
_INNER = {}    # ast id of Not(x) -> x


def bid(e):
    """cached z3 ast id"""
    try:
        return e._vid
    except AttributeError:
        e._vid = e.get_id()
        return e._vid


def b_not(a):
    if isinstance(a, bool):
        return not a
    i = bid(a)
    n = _NEG.get(i)
    if n is None:
        n = z3.Not(a)
        _NEG[i] = n
        _NEG[bid(n)] = a
        _INNER[bid(n)] = a
    return n


def b_and(*xs):
    out = []
    for x in xs:
        if isinstance(x, bool):
            if not x:
                return False
        else:
            out.append(x)
    if not out:
        return True
    if len(out) == 1:
        return out[0]
    return z3.And(*out)


def b_or(*xs):
    out = []
    for x in xs:
        if isinstance(x, bool):
            if x:
                return True
        else:
            out.append(x)
    if not out:
        return False
    if len(out) == 1:
        return out[0]
    return z3.Or(*out)


def b_ite(c, a, b):
    if isinstance(c, bool):
        return a if c else b
    if is_int(a) and is_int(b):
        return atom(z3.If(c, Z(a), Z(b)))
    if is_bool(a) and is_bool(b):
        return z3.If(c, Z(a), Z(b))
    raise Unsupported('ite over non-scalars')


def _merge(ta, tb, sign):
    """merge two sorted term tuples: ta + sign*tb"""
    if not tb:
        return ta
    out = []
    i = j = 0
    na, nb = len(ta), len(tb)
    while i < na and j < nb:
        a, b = ta[i], tb[j]
        if a[0] == b[0]:
            co = a[1] + sign * b[1]
            if co:
                out.append((a[0], co))
            i += 1
            j += 1
        elif a[0] < b[0]:
            out.append(a)
            i += 1
        else:
            out.append((b[0], sign * b[1]))
            j += 1
    out.extend(ta[i:])
    for b in tb[j:]:
        out.append((b[0], sign * b[1]))
    return tuple(out)


def i_add(a, b):
    if type(a) is int and type(b) is int:
        return a + b
    ta, ca = _lin(a)
    tb, cb = _lin(b)
    return _mk(_merge(ta, tb, 1), ca + cb)


def i_sub(a, b):
    if type(a) is int and type(b) is int:
        return a - b
    ta, ca = _lin(a)
    tb, cb = _lin(b)
    return _mk(_merge(ta, tb, -1), ca - cb)


def i_neg(a):
    if type(a) is int:
        return -a
    ta, ca = _lin(a)
    return _mk(tuple((x, -co) for x, co in ta), -ca)


def i_mul(a, b):
    if not is_z3(a) and not is_z3(b):
        return a * b
    ta, ca = _lin(a)
    tb, cb = _lin(b)
    if not ta:
        if ca == 0:
            return 0
        return _mk(tuple((x, co * ca) for x, co in tb), cb * ca)
    if not tb:
        if cb == 0:
            return 0
        return _mk(tuple((x, co * cb) for x, co in ta), ca * cb)
    return atom(Z(a) * Z(b))


def i_floordiv(a, b):
    if not is_z3(a) and not is_z3(b):
        if b == 0:
            raise PyExc('ZeroDivisionError', 'integer division or modulo by zero', True)
        return a // b
    if is_z3(b) or b <= 0:
        raise Unsupported('// by non-constant or non-positive divisor')
    if b == 1:
        return a
    return atom(Z(a) / z3.IntVal(b))  # SMT-LIB div == floor for positive divisor


def i_mod(a, b):
    if not is_z3(a) and not is_z3(b):
        if b == 0:
            raise PyExc('ZeroDivisionError', 'integer division or modulo by zero', True)
        return a % b
    if is_z3(b) or b <= 0:
        raise Unsupported('% by non-constant or non-positive divisor')
    return atom(Z(a) % z3.IntVal(b))


def _mask_parts(mask):
    """mask == (2**a - 1) << b  -> (a, b) or None"""
    if mask <= 0:
        return None
    b = 0
    while mask & 1 == 0:
        mask >>= 1
        b += 1
    a = 0
    while mask & 1:
        mask >>= 1
        a += 1
    if mask != 0:
        return None
    return a, b


def i_and(x, m):
    if not is_z3(x) and not is_z3(m):
        return x & m
    if is_z3(m):
        if is_z3(x):
            raise Unsupported('& of two symbolic ints')
        x, m = m, x
    parts = _mask_parts(m)
    if parts is None:
        raise Unsupported('& with non-contiguous mask')
    a, b = parts
    # two's complement infinite precision: (x & mask) == ((x div 2^b) mod 2^a) * 2^b   (floor div)
    return i_mul(atom((Z(x) / z3.IntVal(2 ** b)) % z3.IntVal(2 ** a)), 2 ** b)


def i_rshift(x, k):
    if not is_z3(x) and not is_z3(k):
        return x >> k
    if is_z3(k) or k < 0:
        raise Unsupported('>> by non-constant')
    return i_floordiv(x, 2 ** k)


def i_lshift(x, k):
    if not is_z3(x) and not is_z3(k):
        return x << k
    if is_z3(k) or k < 0:
        raise Unsupported('<< by non-constant')
    return i_mul(x, 2 ** k)


def _le0(terms, const):
    """z3 atom for  sum(terms) + const <= 0  (memoised; canonical orientation: leading coeff > 0)"""
    if terms[0][1] < 0:
        # d <= 0  <=>  not(-d + 1 <= 0)
        return b_not(_le0(tuple((x, -co) for x, co in terms), -const + 1))
    key = ('le', terms, const)
    e = _CMP_CACHE.get(key)
    if e is None:
        e = SymInt(terms, 0).z3() <= z3.IntVal(-const)
        _CMP_CACHE[key] = e
    return e


def _eq0(terms, const):
    if terms[0][1] < 0:
        terms = tuple((x, -co) for x, co in terms)
        const = -const
    key = ('eq', terms, const)
    e = _CMP_CACHE.get(key)
    if e is None:
        e = SymInt(terms, 0).z3() == z3.IntVal(-const)
        _CMP_CACHE[key] = e
    return e


def i_cmp(op, a, b):
    if type(a) is int and type(b) is int:
        return {'<': a < b, '<=': a <= b, '>': a > b, '>=': a >= b, '==': a == b, '!=': a != b}[op]
    ta, ca = _lin(a)
    tb, cb = _lin(b)
    terms = _merge(ta, tb, -1)
    const = ca - cb
    if not terms:
        return {'<': const < 0, '<=': const <= 0, '>': const > 0, '>=': const >= 0,
                '==': const == 0, '!=': const != 0}[op]
    if op == '<=':
        return _le0(terms, const)
    if op == '<':
        return _le0(terms, const + 1)
    if op == '>':
        return b_not(_le0(terms, const))
    if op == '>=':
        return b_not(_le0(terms, const + 1))
    if op == '==':
        return _eq0(terms, const)
    if op == '!=':
        return b_not(_eq0(terms, const))
    raise AssertionError(op)


def i_min(a, b):
    if not is_z3(a) and not is_z3(b):
        return min(a, b)
    c = i_cmp('<=', a, b)
    if isinstance(c, bool):
        return a if c else b
    return atom(z3.If(c, Z(a), Z(b)))


def i_max(a, b):
    if not is_z3(a) and not is_z3(b):
        return max(a, b)
    c = i_cmp('>=', a, b)
    if isinstance(c, bool):
        return a if c else b
    return atom(z3.If(c, Z(a), Z(b)))


# ---------------------------------------------------------------------------------------------
# heap objects

class HeapObj:
    __slots__ = ('aid', 'frozen')

    def _init(self):
        c = CUR
        self.aid = c.next_alloc() if c is not None else -1
        self.frozen = False


class PList(HeapObj):
    __slots__ = ('items',)

    def __init__(self, items=()):
        self._init()
        self.items = list(items)

    def __repr__(self):
        return 'PList#%d%r' % (self.aid, self.items)


class PDict(HeapObj):
    """Insertion-ordered dict; keys may be symbolic ints / enum values, pairwise distinct under the PC."""
    __slots__ = ('keys', 'vals')

    def __init__(self, pairs=()):
        self._init()
        self.keys = [k for k, _ in pairs]
        self.vals = [v for _, v in pairs]

    def __repr__(self):
        return 'PDict#%d{%s}' % (self.aid, ', '.join('%r: %r' % kv for kv in zip(self.keys, self.vals)))


class PObj(HeapObj):
    __slots__ = ('cls', 'attrs')

    def __init__(self, cls, attrs=None):
        self._init()
        self.cls = cls  # class name (str)
        self.attrs = dict(attrs or {})

    def __repr__(self):
        return '%s#%d(%s)' % (self.cls, self.aid, ', '.join('%s=%r' % kv for kv in self.attrs.items()))


class PSlice:
    __slots__ = ('start', 'stop', 'step')

    def __init__(self, start, stop, step=None):
        self.start, self.stop, self.step = start, stop, step

    def __repr__(self):
        return 'PSlice(%r,%r,%r)' % (self.start, self.stop, self.step)


class PIter(HeapObj):
    """Builtin iterator over a snapshot list of values."""
    __slots__ = ('seq', 'pos')

    def __init__(self, seq):
        self._init()
        self.seq = list(seq)
        self.pos = 0


class EnumVal:
    """Member of one of the library's Enum classes.  `index` selects the canonical member:
    a python int, or a z3 Int for a member only known symbolically (AnsiParam(code) etc.)."""
    __slots__ = ('ecls', 'index')

    def __init__(self, ecls, index):
        self.ecls = ecls
        self.index = index

    def __repr__(self):
        return 'EnumVal(%s,%r)' % (self.ecls, self.index)


# ---------------------------------------------------------------------------------------------
# strings: ropes

DECLEN = z3.Function('declen', IntSort, IntSort)  # number of characters of str(n)


class OpaqueText:
    """An unknown python str value: symbolic length, value identity `tid`, optional char array."""
    _count = 0

    def __init__(self, name):
        self.name = name
        self.len = int_const('len_' + name)
        self.tid = int_const('tid_' + name)
        self.chars = z3.Array('chr_' + name, IntSort, IntSort)

    def __repr__(self):
        return 'T<%s>' % self.name


def _alit(s):
    return ('lit', s)


class Rope:
    """Immutable symbolic string = tuple of atoms.
       ('lit', s) | ('chr', cp) | ('opq', T, lo, hi) | ('rep', cp, n) | ('istr', n)"""
    __slots__ = ('atoms',)

    def __init__(self, atoms):
        self.atoms = tuple(atoms)

    def __repr__(self):
        return 'Rope%r' % (self.atoms,)


def _atom_len(a):
    k = a[0]
    if k == 'lit':
        return len(a[1])
    if k == 'chr':
        return 1
    if k == 'opq':
        return i_sub(a[3], a[2])
    if k == 'rep':
        return a[2]
    if k == 'istr':
        n = Z(a[1])
        d = DECLEN(n)
        if CUR is not None:
            # str(n) has at least one character; exact for 0 <= n < 1000
            CUR.axiom_once(('declen', n.get_id()), lambda: [
                d >= 1, z3.Implies(z3.And(n >= 0, n <= 9), d == 1), z3.Implies(z3.And(n >= 10, n <= 99), d == 2),
                z3.Implies(z3.And(n >= 100, n <= 999), d == 3), z3.Implies(n >= 1000, d >= 4)])
        return atom(d)
    raise AssertionError(a)


def _eqz(a, b):
    """syntactic equality of two int-ish values after simplification"""
    if not is_z3(a) and not is_z3(b):
        return a == b
    d = i_sub(a, b)
    return (not is_z3(d)) and d == 0


def mk_rope(atoms):
    """Normalise: fold concrete chrs/istrs into literals, merge adjacent literals / slices / repeats,
    drop syntactically empty atoms.  Returns a python str when everything is concrete."""
    out = []
    for a in atoms:
        k = a[0]
        if k == 'chr' and not is_z3(a[1]):
            a = ('lit', chr(a[1]))
        elif k == 'istr' and not is_z3(a[1]):
            a = ('lit', str(a[1]))
        elif k == 'rep':
            n = a[2]
            if not is_z3(n):
                if n <= 0:
                    continue
                if not is_z3(a[1]):
                    a = ('lit', chr(a[1]) * n)
                elif n <= 8:
                    for _ in range(n):
                        out.append(('chr', a[1]))
                    continue
        elif k == 'opq':
            if _eqz(a[2], a[3]):
                continue
        k = a[0]
        if k == 'lit':
            if a[1] == '':
                continue
            if out and out[-1][0] == 'lit':
                out[-1] = ('lit', out[-1][1] + a[1])
                continue
        elif k == 'opq' and out and out[-1][0] == 'opq' and out[-1][1] is a[1] and _eqz(out[-1][3], a[2]):
            out[-1] = ('opq', a[1], out[-1][2], a[3])
            continue
        elif k == 'rep' and out and out[-1][0] == 'rep' and _eqz(out[-1][1], a[1]):
            out[-1] = ('rep', a[1], i_add(out[-1][2], a[2]))
            continue
        out.append(a)
    if not out:
        return ''
    if len(out) == 1 and out[0][0] == 'lit':
        return out[0][1]
    return Rope(out)


def atoms_of(s):
    if isinstance(s, str):
        return (('lit', s),) if s else ()
    if isinstance(s, Rope):
        return s.atoms
    raise Unsupported('not a string: %r' % (s,))


class UStr:
    """A string value known only as an uninterpreted term of sort PyStr (result of an uninterpreted str method,
    text of an abstract method result).  Only its length (an uninterpreted function) and equality are available."""
    __slots__ = ('term',)

    def __init__(self, term):
        self.term = term


STRSORT = z3.DeclareSort('PyStr')
USTR_LEN = z3.Function('str.len', STRSORT, IntSort)


def is_str(v):
    return isinstance(v, (str, Rope))


def s_len(s):
    if isinstance(s, str):
        return len(s)
    if isinstance(s, UStr):
        return atom(USTR_LEN(s.term))
    tot = 0
    for a in s.atoms:
        tot = i_add(tot, _atom_len(a))
    return tot


def s_concat(a, b):
    return mk_rope(atoms_of(a) + atoms_of(b))


def s_opaque(T):
    return Rope((('opq', T, 0, T.len),))


def char_at(T, p):
    """code point of text T at position p; for a text declared free of ESC the ground fact is recorded too"""
    T.chars_used = True
    a = atom(z3.Select(T.chars, Z(p)))
    if getattr(T, 'escfree', False) and CUR is not None:
        CUR.assume(i_cmp('!=', a, 27))
    return a


def s_chars(s):
    """list of code points (int | z3) when the string consists of lit/chr atoms only, else None"""
    if isinstance(s, str):
        return [ord(c) for c in s]
    out = []
    for a in s.atoms:
        if a[0] == 'lit':
            out.extend(ord(c) for c in a[1])
        elif a[0] == 'chr':
            out.append(a[1])
        elif a[0] == 'opq' and _eqz(i_sub(a[3], a[2]), 1):
            out.append(char_at(a[1], a[2]))
        else:
            return None
    return out


def s_from_chars(cps):
    return mk_rope([('chr', c) for c in cps])


def _split_atom(a, off):
    """split atom `a` at offset `off` (0 < off < len known to hold) -> (left, right)"""
    k = a[0]
    if k == 'lit':
        if is_z3(off):
            # fork over the concrete positions
            c = ctx()
            for j in range(1, len(a[1])):
                if c.truth(i_cmp('==', off, j)):
                    return ('lit', a[1][:j]), ('lit', a[1][j:])
            raise Infeasible()
        return ('lit', a[1][:off]), ('lit', a[1][off:])
    if k == 'opq':
        mid = i_add(a[2], off)
        return ('opq', a[1], a[2], mid), ('opq', a[1], mid, a[3])
    if k == 'rep':
        return ('rep', a[1], off), ('rep', a[1], i_sub(a[2], off))
    raise Unsupported('split inside atom %r' % (a[0],))


def s_cut(s, pos):
    """(s[:pos], s[pos:]) for 0 <= pos <= len(s) (caller guarantees the range)."""
    if isinstance(s, str) and not is_z3(pos):
        return s[:pos], s[pos:]
    atoms = atoms_of(s)
    c = ctx()
    off = 0
    for n, a in enumerate(atoms):
        al = _atom_len(a)
        end = i_add(off, al)
        rel = i_sub(pos, off)
        # pos <= off : cut before this atom
        if c.truth(i_cmp('<=', pos, off)):
            return mk_rope(atoms[:n]), mk_rope(atoms[n:])
        if c.truth(i_cmp('<', pos, end)):
            l, r = _split_atom(a, rel)
            return mk_rope(atoms[:n] + (l,)), mk_rope((r,) + atoms[n + 1:])
        off = end
    return mk_rope(atoms), ''


def slice_bounds(start, stop, n, fork=True):
    """Python's slice.indices(n)[:2] for step 1, plus clamping hi >= lo.
    With fork=True the case split is made on the path (results stay linear terms)."""
    c = CUR if fork else None

    def norm(v, default):
        if v is None:
            return default
        if not is_z3(v) and not is_z3(n):
            if v < 0:
                return max(v + n, 0)
            return min(v, n)
        if c is not None:
            if c.truth(i_cmp('<', v, 0)):
                w = i_add(v, n)
                return 0 if c.truth(i_cmp('<', w, 0)) else w
            return n if c.truth(i_cmp('>', v, n)) else v
        v_, n_ = Z(v), Z(n)
        return atom(z3.If(v_ < 0, z3.If(v_ + n_ < 0, 0, v_ + n_), z3.If(v_ > n_, n_, v_)))
    lo = norm(start, 0)
    hi = norm(stop, n)
    if c is not None and (is_z3(lo) or is_z3(hi)):
        if c.truth(i_cmp('<', hi, lo)):
            hi = lo
    else:
        hi = i_max(lo, hi)
    return lo, hi


def s_slice(s, start, stop):
    n = s_len(s)
    lo, hi = slice_bounds(start, stop, n)
    if isinstance(s, str) and not is_z3(lo) and not is_z3(hi):
        return s[lo:hi]
    atoms = atoms_of(s)
    if len(atoms) == 1 and atoms[0][0] == 'opq':
        a = atoms[0]
        return mk_rope([('opq', a[1], i_add(a[2], lo), i_add(a[2], hi))])
    if len(atoms) == 1 and atoms[0][0] == 'rep':
        return mk_rope([('rep', atoms[0][1], i_sub(hi, lo))])
    _, right = s_cut(s, lo)
    mid, _ = s_cut(right, i_sub(hi, lo))
    return mid


def s_index(s, i):
    """s[i] for an int index (IndexError when out of range)."""
    n = s_len(s)
    c = ctx()
    if not c.truth(b_and(i_cmp('>=', i, i_neg(n)), i_cmp('<', i, n))):
        raise PyExc('IndexError', 'string index out of range', True)
    if c.truth(i_cmp('<', i, 0)):
        i = i_add(i, n)
    if isinstance(s, str) and not is_z3(i):
        return s[i]
    atoms = atoms_of(s)
    if len(atoms) == 1 and atoms[0][0] == 'opq':
        a = atoms[0]
        p = i_add(a[2], i)
        return mk_rope([('opq', a[1], p, i_add(p, 1))])
    if len(atoms) == 1 and atoms[0][0] == 'rep':
        return mk_rope([('chr', atoms[0][1])])
    cps = s_chars(s)
    if cps is not None:
        if is_z3(i):
            for j in range(len(cps)):
                if c.truth(i_cmp('==', i, j)):
                    return mk_rope([('chr', cps[j])])
            raise Infeasible()
        return mk_rope([('chr', cps[i])])
    return s_slice(s, i, i_add(i, 1))


class Approx:
    """A *sufficient* condition for a string equality that the engine cannot decide exactly.
    Allowed only inside contract clauses (a false branch is then an unconfirmed refutation)."""
    __slots__ = ('cond',)

    def __init__(self, cond):
        self.cond = cond


def _atom_eq(a, b):
    """exact equality condition for two single atoms of the same kind, or None"""
    if a[0] != b[0]:
        return None
    k = a[0]
    if k == 'lit':
        return a[1] == b[1]
    if k == 'chr':
        return i_cmp('==', a[1], b[1])
    if k == 'istr':
        return i_cmp('==', a[1], b[1])  # str() of ints is injective
    return None


def _fields(atoms):
    """split a rope of literal / str(int) atoms at ';' into fields (lists of atoms); str(int) contains no ';'"""
    fields = [[]]
    for a in atoms:
        if a[0] == 'lit':
            parts = a[1].split(';')
            for n, p in enumerate(parts):
                if n:
                    fields.append([])
                if p:
                    fields[-1].append(('lit', p))
        else:
            fields[-1].append(a)
    return fields


def _eq_fields(A, B):
    """exact equality of two ropes made of literals and str(int) atoms, decided field by field; None if unknown"""
    fa, fb = _fields(A), _fields(B)
    if len(fa) != len(fb):
        return False
    conds = []
    for x, y in zip(fa, fb):
        if len(x) == 1 and len(y) == 1 and x[0][0] == 'istr' and y[0][0] == 'istr':
            conds.append(i_cmp('==', x[0][1], y[0][1]))
            continue
        if all(t[0] == 'lit' for t in x) and all(t[0] == 'lit' for t in y):
            if ''.join(t[1] for t in x) != ''.join(t[1] for t in y):
                return False
            continue
        if len(x) == 1 and x[0][0] == 'istr' and all(t[0] == 'lit' for t in y):
            x, y = y, x
        if len(y) == 1 and y[0][0] == 'istr' and all(t[0] == 'lit' for t in x):
            lit = ''.join(t[1] for t in x)
            body = lit[1:] if lit.startswith('-') else lit
            if body.isdigit() and body.isascii() and (body == '0' or not body.startswith('0')) and lit != '-0':
                conds.append(i_cmp('==', y[0][1], int(lit)))
                continue
            return False  # str(int) is a canonical decimal numeral
        return None
    return b_and(*conds)


def s_eq(a, b, _depth=0):
    """a == b for strings.  Returns bool | z3 Bool | Approx."""
    if isinstance(a, str) and isinstance(b, str):
        return a == b
    A, B = atoms_of(a), atoms_of(b)
    # empty literal: equality <=> length 0
    if not A:
        return i_cmp('==', s_len(b), 0)
    if not B:
        return i_cmp('==', s_len(a), 0)
    ca, cb = s_chars(a), s_chars(b)
    if ca is not None and cb is not None:
        if len(ca) != len(cb):
            return False
        return b_and(*[i_cmp('==', x, y) for x, y in zip(ca, cb)])
    # a slice of known small length against characters: compare the characters of the slice
    for X, Y, yc in ((A, B, cb), (B, A, ca)):
        if len(X) == 1 and X[0][0] == 'opq' and yc is not None:
            ln = i_sub(X[0][3], X[0][2])
            if is_z3(ln) and CUR is not None and len(yc) <= 8:
                # decide the (small) length of the slice on this path
                if CUR.truth(i_cmp('!=', ln, len(yc))):
                    return False
                ln = len(yc)
            if not is_z3(ln):
                if ln != len(yc):
                    return False
                if ln <= 8:
                    return b_and(*[i_cmp('==', char_at(X[0][1], i_add(X[0][2], k)), yc[k]) for k in range(ln)])
    # whole opaque texts: value identity
    if len(A) == 1 and len(B) == 1 and A[0][0] == 'opq' and B[0][0] == 'opq':
        ta, tb = A[0], B[0]
        wa = _eqz(ta[2], 0) and _eqz(ta[3], ta[1].len)
        wb = _eqz(tb[2], 0) and _eqz(tb[3], tb[1].len)
        if ta[1] is tb[1]:
            if _eqz(ta[2], tb[2]) and _eqz(ta[3], tb[3]):
                return True
        elif wa and wb:
            return i_cmp('==', ta[1].tid, tb[1].tid)
    if len(A) == 1 and len(B) == 1 and A[0][0] == 'istr' and B[0][0] == 'istr':
        return i_cmp('==', A[0][1], B[0][1])  # str() of ints is injective
    if all(x[0] in ('lit', 'istr') for x in A) and all(x[0] in ('lit', 'istr') for x in B):
        r = _eq_fields(A, B)
        if r is not None:
            return r
    # same atom structure, atom-wise exact
    if len(A) == len(B):
        conds = []
        exact = True
        for x, y in zip(A, B):
            if x[0] == y[0] == 'opq' and x[1] is y[1]:
                # same source text, positional: sufficient condition (content could coincide elsewhere)
                conds.append(b_or(b_and(i_cmp('==', x[2], y[2]), i_cmp('==', x[3], y[3])),
                                  b_and(i_cmp('==', x[2], x[3]), i_cmp('==', y[2], y[3]))))
                exact = False
            elif x[0] == y[0] == 'rep':
                conds.append(b_and(i_cmp('==', x[2], y[2]), b_or(i_cmp('==', x[1], y[1]), i_cmp('==', x[2], 0))))
                exact = False
            else:
                e = _atom_eq(x, y)
                if e is None:
                    conds = None
                    break
                conds.append(e)
                if x[0] == 'istr':
                    exact = False  # alignment of atoms is itself only sufficient
        if conds is not None:
            c = b_and(*conds)
            if c is True and not exact:
                return True
            if exact or c is True:
                return c
            return Approx(c)
    # structures differ: decide which symbolic-length atoms are empty on this path and compare again
    if _depth == 0 and CUR is not None:
        def prune(atoms):
            out = []
            changed = False
            for x in atoms:
                if x[0] in ('opq', 'rep'):
                    ln = _atom_len(x)
                    if is_z3(ln) and CUR.truth(i_cmp('==', ln, 0)):
                        changed = True
                        continue
                out.append(x)
            return out, changed
        A2, ca_ = prune(A)
        B2, cb_ = prune(B)
        if ca_ or cb_:
            return s_eq(mk_rope(A2), mk_rope(B2), 1)
    # lengths differ -> unequal; otherwise unknown
    la, lb = s_len(a), s_len(b)
    dl = i_cmp('==', la, lb)
    if dl is False:
        return False
    # last resort: equality of the uninterpreted string values (facts about them come from assumed contracts)
    try:
        from . import builtins_model as _bm
        return Approx(_bm.str_term(a) == _bm.str_term(b))
    except Unsupported:
        return Approx(False)


def s_mul(s, n):
    if isinstance(s, str) and not is_z3(n):
        return s * n
    cps = s_chars(s)
    if cps is not None and len(cps) == 1:
        c = ctx()
        if c.truth(i_cmp('<=', n, 0)):
            return ''
        return mk_rope([('rep', cps[0], n)])
    if not is_z3(n):
        return mk_rope(atoms_of(s) * max(n, 0))
    raise Unsupported('str * symbolic int for multi-char string')


def s_truth(s):
    return i_cmp('!=', s_len(s), 0)


def expand_istr(s, max_digits=3):
    """Replace every str(int) atom by explicit characters, forking on sign and digit count (|n| < 10**max_digits)."""
    if isinstance(s, str):
        return s
    c = ctx()
    out = []
    for a in s.atoms:
        if a[0] != 'istr':
            out.append(a)
            continue
        n = a[1]
        if c.truth(i_cmp('<', n, 0)):
            out.append(('lit', '-'))
            n = i_neg(n)
        nd = None
        for d in range(1, max_digits + 1):
            if c.truth(i_cmp('<', n, 10 ** d)):
                nd = d
                break
        if nd is None:
            raise Unsupported('str(int) with more than %d digits' % max_digits)
        for k in range(nd - 1, -1, -1):
            digit = i_mod(i_floordiv(n, 10 ** k), 10) if k else i_mod(n, 10)
            out.append(('chr', i_add(digit, 48)))
    return mk_rope(out)
