#!/usr/bin/env python3
"""tools/run_seeds.py [--procs N] [seed ids...]: re-applies every kept property-breaking change (seeded/<id>/patch.diff) to a
scratch copy of /repo HEAD and runs the obligation groups recorded as catching it (without their dependency closure).
Expected: exit 1 (VIOLATION) for each.  Prints one line per seed; exit 0 iff every seed that still applies is detected."""
import glob, json, os, re, shutil, subprocess, sys, tempfile
V = os.path.dirname(os.path.dirname(os.path.abspath(__file__)))
args = sys.argv[1:]
procs = None
if args[:1] == ['--procs']:
    procs = args[1]
    args = args[2:]
sys.path.insert(0, V)
from pyvc import registry  # noqa: E402
known = set(registry.load())
bad = 0
for mf in sorted(glob.glob(os.path.join(V, 'seeded', '*', 'meta.json'))):
    m = json.load(open(mf))
    if args and m['id'] not in args:
        continue
    groups = [g for g in dict.fromkeys(re.findall(r'\b([A-Z][0-9A-Za-z]{1,3})\b', str(m['detected_by']))) if g in known]
    d = tempfile.mkdtemp(prefix='seedrun.', dir='/tmp')
    try:
        subprocess.run('git -C /repo archive HEAD | tar -x -C %s' % d, shell=True, check=True)
        r = subprocess.run(['git', 'apply', os.path.join(os.path.dirname(mf), 'patch.diff')], cwd=d, capture_output=True, text=True)
        if r.returncode != 0:
            r = subprocess.run(['patch', '-p1', '-s', '-i', os.path.join(os.path.dirname(mf), 'patch.diff')], cwd=d, capture_output=True, text=True)
        if r.returncode != 0:
            print('%-7s PATCH-NO-LONGER-APPLIES (the code it changed was repaired or rewritten since)' % m['id'])
            continue
        env = dict(os.environ, PYVC_SRC=os.path.join(d, 'src'), PYVC_NOCLOSURE='1')
        cmd = [os.path.join(V, 'check'), '--groups', ','.join(groups), '--no-evidence'] + (['--procs', procs] if procs else [])
        r = subprocess.run(cmd, cwd=V, env=env, capture_output=True, text=True)
        ok = r.returncode == 1 and 'VIOLATION' in r.stdout
        print('%-7s %s groups=%s exit=%d' % (m['id'], 'DETECTED' if ok else 'MISSED', ','.join(groups), r.returncode), flush=True)
        if not ok:
            bad += 1
    finally:
        shutil.rmtree(d, ignore_errors=True)
sys.exit(1 if bad else 0)
