#!/opt/veriftools/pyvenv/bin/python
"""Regenerate MANIFEST.json from contracts/properties.py (claimed properties) and properties.jsonl."""
import importlib.util
import json
import os
import subprocess

V = os.path.dirname(os.path.dirname(os.path.abspath(__file__)))
spec = importlib.util.spec_from_file_location('props', os.path.join(V, 'contracts', 'properties.py'))
mod = importlib.util.module_from_spec(spec)
spec.loader.exec_module(mod)
P = mod.PROPERTIES
NA = getattr(mod, 'NOT_APPLICABLE', {})
allp = [json.loads(l) for l in open(os.path.join(V, 'properties.jsonl'))]
checks = []
for p in allp:
    pid = p['id']
    if pid not in P:
        continue
    info = P[pid]
    checks.append({
        'property_id': pid,
        'quick_cmd': './check %s --tier quick' % pid,
        'thorough_cmd': './check %s --tier thorough' % pid,
        'evidence_file': 'evidence/%s.json' % pid,
        'replay_cmd_template': './check --replay {path}',
        'engine': 'pyvc',
        'level_claimed': {
            'category': info.get('level', 'other'),
            'text': info.get('level_text', info['explanation']),
            'design_ref': info.get('design_ref', 'DESIGN.md section 5 (%s)' % pid),
        },
        'level_note': info.get('level_note', 'Trusted: the pyvc engine and its builtin models (cross-checked against CPython on '
                               'explored paths), z3; bounded-symbolic (B-mode) groups are a bounded stand-in, labelled so in the '
                               'evidence, and not counted as proved. ' + '; '.join(info.get('trusted_base', []))),
        'technique': info.get('technique', 'contract-based deductive verification: VCs generated from the AST of the real '
                              'source against sidecar contracts, discharged by z3 (unbounded where loop-free/invariant, '
                              'bounded-symbolic for the table walkers)'),
    })
m = {
    'version': 1,
    'setup_cmd': 'cd /verif && /opt/veriftools/pyvenv/bin/python -m compileall -q pyvc contracts && ./check --selftest',
    'hooks': {
        'guard': 'ANSI_STRING_VERIF',
        'enable': 'no hooks: contracts are sidecar files under /verif/contracts; the engine re-reads /repo/src (override: PYVC_SRC) on every run',
        'baseline_off_cmd': 'cd /repo && /venv/bin/python -m pytest -ra -q -p no:cacheprovider --timeout=900 --continue-on-collection-errors',
        'source_commits': [],
        'add_only': True,
    },
    'engines': [{
        'name': 'pyvc',
        'path': 'pyvc/',
        'serves_properties': [c['property_id'] for c in checks],
        'kind_free_text': 'own verification-condition generator: symbolic interpretation of the Python AST of /repo/src against '
                          'contracts in /verif/contracts, obligations discharged by z3; native replay of counter-models',
    }],
    'checks': checks,
    'not_applicable': [{'property_id': p['id'], 'reason': NA.get(p['id'], 'contracts for this property are not finished yet '
                                                                  '(see DESIGN.md, build status); not claimed')}
                       for p in allp if p['id'] not in P],
    'notes': 'Contract-based deductive verification with an own AST->SMT engine (pyvc); see DESIGN.md. Defects found by the '
             'checks were repaired in /repo by separate fix: commits, listed in known_findings.json.',
}
json.dump(m, open(os.path.join(V, 'MANIFEST.json'), 'w'), indent=1)
print('claimed:', [c['property_id'] for c in checks])
