#!/bin/bash
# usage: tm_groups.sh <mutant dir> <groups>   -- apply patch on scratch copy and run only given groups (no closure)
M=$1; G=$2
S=$(mktemp -d /tmp/mutscratch.XXXXXX)
trap 'rm -rf "$S"' EXIT
git -C /repo archive HEAD | tar -x -C "$S"
( cd "$S" && git init -q . 2>/dev/null; git apply "$M/patch.diff" ) || { echo "PATCH DOES NOT APPLY"; exit 9; }
( cd /verif && PYVC_NOCLOSURE=1 PYVC_SRC=$S/src ./check --groups $G --no-evidence > $S/out.txt 2>&1; echo "check exit: $?"; grep -v "^  [A-Z]" $S/out.txt | head -6 )
