#!/bin/bash
# usage: tools/try_mutant.sh <mutant dir containing patch.diff, demo.py> <check args...>
# Verifies the mutant (tests pass, demo fails with / passes without the patch) on a scratch copy, then runs ./check on it.
set -u
M=$1; shift
S=$(mktemp -d /tmp/mutscratch.XXXXXX)
trap 'rm -rf "$S"' EXIT
git -C /repo archive HEAD | tar -x -C "$S"
( cd "$S" && PYTHONPATH=$S/src /venv/bin/python "$M/demo.py" >/dev/null 2>&1 ); echo "demo on clean tree: exit $?"
( cd "$S" && git init -q . 2>/dev/null; git apply "$M/patch.diff" ) || { echo "PATCH DOES NOT APPLY"; exit 9; }
( cd "$S" && PYTHONPATH=$S/src /venv/bin/python -m pytest -q -p no:cacheprovider tests 2>&1 | tail -1 )
( cd "$S" && PYTHONPATH=$S/src /venv/bin/python "$M/demo.py" >/dev/null 2>&1 ); echo "demo on patched tree: exit $?"
if [ $# -gt 0 ]; then
  for p in "$@"; do
    ( cd /verif && PYVC_SRC=$S/src ./check $p --no-evidence > $S/out.txt 2>&1; echo "check $p exit: $?"; grep -v "^  [A-Z]" $S/out.txt | head -8 )
  done
fi
