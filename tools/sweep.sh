#!/bin/bash
# usage: tools/sweep.sh <tier> <procs> <prop>...   - runs the checks one after the other, one summary line each
tier=$1; procs=$2; shift; shift
for p in "$@"; do
  t0=$(date +%s)
  timeout 7200 ./check $p --tier $tier --procs $procs --no-evidence > sweep_$p.log 2>&1
  rc=$?
  echo "$p tier=$tier rc=$rc secs=$(( $(date +%s) - t0 )) $(tail -1 sweep_$p.log | cut -c1-150)"
done
