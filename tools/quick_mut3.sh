#!/bin/bash
# like quick_mut2.sh but runs only the named groups without their dependency closure (PYVC_NOCLOSURE=1)
S=$(mktemp -d /tmp/qm.XXXXXX); trap 'rm -rf "$S"' EXIT
git -C /repo archive HEAD | tar -x -C "$S"
python3 - "$S" "$1" "$2" <<'PY'
import sys
S,f,expr=sys.argv[1],sys.argv[2],sys.argv[3]
p=S+'/src/ansi_string/'+f
s=open(p).read()
t=eval(expr)
assert t!=s, 'mutation did not change the source'
open(p,'w').write(t)
PY
[ $? -eq 0 ] || exit 9
shift; shift
( cd "$S" && PYTHONPATH=$S/src /venv/bin/python -m pytest -q -p no:cacheprovider tests 2>&1 | tail -1 )
cd /verif && PYVC_NOCLOSURE=1 PYVC_SRC=$S/src ./check "$@" --no-evidence 2>&1 | grep -v "^  [A-Z]" | head -${QM_LINES:-6}
