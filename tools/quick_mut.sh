#!/bin/bash
# usage: tools/quick_mut.sh '<python expr: s.replace(old,new)>' <check args>   (ad-hoc mutant on a scratch copy)
S=$(mktemp -d /tmp/qm.XXXXXX); trap 'rm -rf "$S"' EXIT
git -C /repo archive HEAD | tar -x -C "$S"
python3 - "$S" "$1" <<'PY'
import sys
S,expr=sys.argv[1],sys.argv[2]
p=S+'/src/ansi_string/ansi_string.py'
s=open(p).read()
t=eval(expr)
assert t!=s, 'mutation did not change the source'
open(p,'w').write(t)
PY
[ $? -eq 0 ] || exit 9
shift
( cd "$S" && PYTHONPATH=$S/src /venv/bin/python -m pytest -q -p no:cacheprovider tests 2>&1 | tail -1 )
cd /verif && PYVC_SRC=$S/src ./check "$@" --no-evidence 2>&1 | grep -v "^  [A-Z]" | head -${QM_LINES:-6}
