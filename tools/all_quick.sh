#!/bin/bash
# runs every claimed property's quick check in /verif (writes evidence; with -b also refreshes baseline_obligations.json)
extra=""; [ "$1" = "-b" ] && extra="--write-baseline"
for p in C04 C05 C06 C07 C13 C17 C19 C18 C15 C08 C02 C01 C16 C12 C14 C11 C10 C03 C09; do
  t0=$(date +%s)
  ./check $p --tier quick $extra > /tmp/allq_$p.log 2>&1
  echo "$p rc=$? secs=$(( $(date +%s) - t0 )) $(tail -1 /tmp/allq_$p.log | cut -c1-120)"
done
