#!/usr/bin/env python3
"""tools/save_seed.py <mutant dir> <seed id> <property> <detected-by text>  -> /verif/seeded/<seed id>/"""
import json, os, shutil, sys
src, sid, prop, det = sys.argv[1:5]
dst = os.path.join('/verif/seeded', sid)
os.makedirs(dst, exist_ok=True)
for f in ('patch.diff', 'demo.py', 'notes.txt'):
    if os.path.exists(os.path.join(src, f)):
        shutil.copy(os.path.join(src, f), os.path.join(dst, f))
notes = open(os.path.join(src, 'notes.txt')).read() if os.path.exists(os.path.join(src, 'notes.txt')) else ''
meta = {
    'id': sid, 'breaks_property': prop, 'origin': 'independent sub-agent given only the property text and a scratch worktree',
    'needs_to_manifest': notes.strip(),
    'confirmed': 'tools/try_mutant.sh: on a scratch copy of /repo HEAD the demo exits 0 without the patch; with the patch the '
                 '306 tests pass and the demo exits non-zero',
    'detected_by': det,
}
json.dump(meta, open(os.path.join(dst, 'meta.json'), 'w'), indent=1)
print('saved', dst)
